//! Run the CLI under test (`ska_cli` = `ska::main()` built from /repo's working tree).

use std::collections::BTreeMap;
use std::process::{Command, Stdio};

pub struct CliOut {
    pub code: i32,
    pub stdout: Vec<u8>,
    pub stderr: Vec<u8>,
}

/// When set, `exe()` is the dev-profile build of the same `ska_cli` (debug assertions and arithmetic overflow
/// checks on): a result must not depend on the build profile, and a panic there is an overflow the release build
/// silently wraps.
static DEBUG_PROFILE: std::sync::atomic::AtomicBool = std::sync::atomic::AtomicBool::new(false);

pub fn debug_exe() -> Option<String> {
    std::env::var("VERIF_SKA_CLI_DEBUG").ok().filter(|p| std::path::Path::new(p).exists())
}

pub fn debug_profile() -> bool {
    DEBUG_PROFILE.load(std::sync::atomic::Ordering::Relaxed)
}

/// returns false (and changes nothing) when no dev-profile binary was built
pub fn set_debug_profile(on: bool) -> bool {
    if on && debug_exe().is_none() {
        return false;
    }
    DEBUG_PROFILE.store(on, std::sync::atomic::Ordering::Relaxed);
    true
}

pub fn exe() -> String {
    if debug_profile() {
        if let Some(p) = debug_exe() {
            return p;
        }
    }
    if let Ok(p) = std::env::var("VERIF_SKA_CLI") {
        return p;
    }
    let me = std::env::current_exe().unwrap();
    me.parent().unwrap().join("ska_cli").to_str().unwrap().to_string()
}

pub fn cli_timeout_s() -> u64 {
    std::env::var("VERIF_CLI_TIMEOUT").ok().and_then(|s| s.parse().ok()).unwrap_or(120)
}

pub fn shim() -> Option<String> {
    std::env::var("VERIF_SHIM").ok().filter(|p| std::path::Path::new(p).exists())
}

/// Run with a working directory; `hash_seed` activates the deterministic-seed shim.
static VERBOSE: std::sync::atomic::AtomicBool = std::sync::atomic::AtomicBool::new(false);

/// While on, every CLI run gets `-v` (progress messages on stderr): one more configuration under which results must not change.
pub fn set_verbose(on: bool) {
    VERBOSE.store(on, std::sync::atomic::Ordering::Relaxed);
}

static LAYOUT: std::sync::atomic::AtomicUsize = std::sync::atomic::AtomicUsize::new(AUTO_LAYOUT);

/// default: the layout is derived from the arguments themselves (so a replay of the same case uses the same one)
pub const AUTO_LAYOUT: usize = usize::MAX;

/// Argument layout of every CLI run: 0 = as the engine wrote it; 1 = all options first, then the positional arguments;
/// 2 = first positional, then all options, then the other positionals; 3 = positionals first, options last (in reverse
/// order, each spelled the other way: -m <-> --min-freq etc.); layout 1 writes long options as --name=value. The command
/// line means the same in every layout. Unless an engine sets one, the layout of a run is derived
/// from its arguments (AUTO_LAYOUT), so all four occur throughout every CLI family.
pub fn set_layout(l: usize) {
    LAYOUT.store(l, std::sync::atomic::Ordering::Relaxed);
}

/// options of `ska` that take a value (everything else starting with '-' is a switch)
const VALUE_OPTS: [&str; 21] = ["-o", "-k", "-f", "--format", "--min-count", "--min-qual", "--qual-filter", "--threads", "-m", "--min-freq", "--missing", "--filter", "--proportion-reads", "-s", "--skf-file", "-r", "--reference", "-d", "-n", "--depth", "--indel-kmers"];

pub fn rearranged(args: &[&str], layout: usize) -> Vec<String> {
    if layout == 0 || args.is_empty() {
        return args.iter().map(|s| s.to_string()).collect();
    }
    let sub = args[0].to_string();
    let mut opts: Vec<Vec<String>> = Vec::new();
    let mut pos: Vec<String> = Vec::new();
    let mut i = 1;
    while i < args.len() {
        let a = args[i];
        if a.starts_with('-') && a.len() > 1 && !a[1..2].chars().all(|c| c.is_ascii_digit()) {
            if VALUE_OPTS.contains(&a) && i + 1 < args.len() {
                opts.push(vec![a.to_string(), args[i + 1].to_string()]);
                i += 2;
            } else {
                opts.push(vec![a.to_string()]);
                i += 1;
            }
        } else {
            pos.push(a.to_string());
            i += 1;
        }
    }
    // layout 3 also spells every option the other way (short <-> long), layout 1 writes long options as --name=value
    let synonyms: &[(&str, &str)] = match sub.as_str() {
        "align" | "weed" | "distance" => &[("-m", "--min-freq")],
        "lo" => &[("-m", "--missing"), ("-r", "--reference"), ("-d", "--depth"), ("-n", "--indel-kmers")],
        "map" => &[("-f", "--format")],
        "delete" => &[("-s", "--skf-file")],
        _ => &[],
    };
    if layout == 3 {
        for o in opts.iter_mut() {
            if let Some((a, b)) = synonyms.iter().find(|(a, b)| *a == o[0] || *b == o[0]) {
                o[0] = if *a == o[0] { b.to_string() } else { a.to_string() };
            } else if o[0] == "-v" {
                o[0] = "--verbose".to_string();
            }
        }
    }
    if layout == 1 {
        for o in opts.iter_mut() {
            if o.len() == 2 && o[0].starts_with("--") {
                *o = vec![format!("{}={}", o[0], o[1])];
            }
        }
    }
    let mut out = vec![sub];
    match layout {
        1 => {
            out.extend(opts.into_iter().flatten());
            out.extend(pos);
        }
        2 => {
            let mut p = pos.into_iter();
            out.extend(p.next());
            out.extend(opts.into_iter().flatten());
            out.extend(p);
        }
        _ => {
            out.extend(pos);
            opts.reverse();
            out.extend(opts.into_iter().flatten());
        }
    }
    out
}

pub fn run(args: &[&str], cwd: &str, hash_seed: Option<u64>) -> CliOut {
    let mut layout = LAYOUT.load(std::sync::atomic::Ordering::Relaxed);
    if layout == AUTO_LAYOUT {
        layout = (crate::explore::hash64(&args) % 4) as usize;
    }
    let owned = rearranged(args, layout);
    let args: Vec<&str> = owned.iter().map(|s| s.as_str()).collect();
    let args = &args[..];
    // every CLI run is bounded: a command that hangs is killed and shows up as exit -9
    let mut c = Command::new("timeout");
    c.args(["-s", "KILL", &cli_timeout_s().to_string()]).arg(exe());
    if VERBOSE.load(std::sync::atomic::Ordering::Relaxed) {
        c.arg("-v");
    }
    c.args(args).current_dir(cwd).stdin(Stdio::null()).stdout(Stdio::piped()).stderr(Stdio::piped());
    c.env_remove("LD_PRELOAD");
    c.env("RUST_BACKTRACE", "0");
    if let Some(s) = hash_seed {
        if let Some(sh) = shim() {
            c.env("LD_PRELOAD", sh).env("VERIF_HASH_SEED", s.to_string());
        }
    }
    match c.output() {
        Ok(o) => {
            let code = o.status.code().unwrap_or(-9);
            let mut stderr = o.stderr;
            if code == -9 || code == 137 {
                stderr.extend_from_slice(b"\nerror: command killed after the time limit (hang)");
            }
            CliOut { code: if code == 137 { -9 } else { code }, stdout: o.stdout, stderr }
        }
        Err(e) => CliOut { code: -2, stdout: vec![], stderr: format!("spawn failed: {e}").into_bytes() },
    }
}

pub struct Nk {
    pub k: usize,
    pub k_bits: u32,
    pub rc: bool,
    pub kmers: usize,
    pub samples: usize,
    pub names: Vec<String>,
    pub sample_kmers: Vec<usize>,
    /// key (upper+lower arm) -> bases
    pub rows: BTreeMap<String, Vec<u8>>,
    pub row_lines: usize,
}

fn parse_list(s: &str) -> Vec<String> {
    let inner = s.trim().trim_start_matches('[').trim_end_matches(']');
    if inner.trim().is_empty() {
        return vec![];
    }
    inner.split(", ").map(|x| x.trim().trim_matches('"').to_string()).collect()
}

/// Parse `ska nk --full-info` output
pub fn parse_nk(text: &[u8]) -> Result<Nk, String> {
    let t = String::from_utf8_lossy(text);
    let mut nk = Nk { k: 0, k_bits: 0, rc: false, kmers: 0, samples: 0, names: vec![], sample_kmers: vec![], rows: BTreeMap::new(), row_lines: 0 };
    for l in t.lines() {
        if let Some(v) = l.strip_prefix("k=") {
            nk.k = v.parse().map_err(|_| "k")?;
        } else if let Some(v) = l.strip_prefix("k_bits=") {
            nk.k_bits = v.parse().map_err(|_| "k_bits")?;
        } else if let Some(v) = l.strip_prefix("rc=") {
            nk.rc = v == "true";
        } else if let Some(v) = l.strip_prefix("k-mers=") {
            nk.kmers = v.parse().map_err(|_| "k-mers")?;
        } else if let Some(v) = l.strip_prefix("samples=") {
            nk.samples = v.parse().map_err(|_| "samples")?;
        } else if let Some(v) = l.strip_prefix("sample_names=") {
            nk.names = parse_list(v);
        } else if let Some(v) = l.strip_prefix("sample_kmers=") {
            nk.sample_kmers = parse_list(v).iter().map(|x| x.parse().unwrap_or(usize::MAX)).collect();
        } else {
            let parts: Vec<&str> = l.split('\t').collect();
            if parts.len() == 3 {
                nk.row_lines += 1;
                let bases: Vec<u8> = parts[2].split(',').map(|b| b.as_bytes().first().copied().unwrap_or(b'?')).collect();
                nk.rows.insert(format!("{}{}", parts[0], parts[1]), bases);
            }
        }
    }
    Ok(nk)
}
