//! Deterministic sample families shared by the table-operation engines.

use crate::enumerate::repeat_free;
use crate::refmodel::*;

/// Up to 8 samples (each a list of records) derived from one repeat-free genome at k:
/// k-mers shared by all / some / one sample, SNPs, a truncated sample, a reverse-complemented
/// sample, ambiguity from a repeat with another middle base, an N, and self-reverse-complement arms.
pub fn pool(k: usize, seed: u64) -> Vec<Vec<Vec<u8>>> {
    let h = (k - 1) / 2;
    let g = repeat_free(3 * k + 2, k, 0, seed);
    let snp = |s: &[u8], p: usize| {
        let mut t = s.to_vec();
        t[p] = comp(t[p]);
        t
    };
    let other = |s: &[u8], p: usize| {
        let mut t = s.to_vec();
        t[p] = match t[p] {
            b'A' => b'C',
            b'C' => b'A',
            b'G' => b'T',
            _ => b'G',
        };
        t
    };
    // a repeat of the first window with another middle base -> ambiguity code within one sample
    let mut rep = g[..k].to_vec();
    rep[h] = comp(rep[h]);
    rep.push(b'A');
    // self-reverse-complement arms: X m rc(X)
    let x = &g[k..k + h];
    let mut pal = x.to_vec();
    pal.push(b'A');
    pal.extend(rc_str(x));
    pal.push(b'C');
    let unique = repeat_free(k + 3, k, 0, seed + 77);
    // private rows holding every ambiguity code of two or three bases (M, R, W, S, Y, K, V, H, D, B): for each base set
    // a window of its own (from a sequence no other sample shares) repeated with each middle base of the set
    let private = repeat_free(11 * k + 8, k, 0, seed + 78);
    let mut coded: Vec<Vec<u8>> = Vec::new();
    for (j, set) in [&b"AC"[..], b"AG", b"AT", b"CG", b"CT", b"GT", b"ACG", b"ACT", b"AGT", b"CGT"].iter().enumerate() {
        for (i, m) in set.iter().enumerate() {
            let mut w = private[j * (k + 1)..j * (k + 1) + k].to_vec();
            w[h] = *m;
            w.push(b"ACGT"[(i + j) % 4]);
            coded.push(w);
        }
    }
    let mut second = vec![snp(&g, k + h)];
    second.extend(coded);
    vec![
        vec![g.clone()],
        second,
        vec![g[..2 * k].to_vec(), unique.clone()],
        vec![rc_str(&other(&g, k + h)), rep.clone()],
        vec![{
            let mut t = g.clone();
            t[2 * k + 1] = b'N';
            t
        }],
        vec![g[k - 2..].to_vec(), pal.clone()],
        vec![snp(&snp(&g, h), 2 * k + h), rep],
        vec![other(&g, h).to_ascii_lowercase(), pal.clone()],
        // index 8: rows whose only stored symbol is N — the self-complementary arms with an A and with a C middle base
        // (W + S = N with both strands), and the first window four times with the four middle bases
        vec![
            pal.clone(),
            {
                let mut t = pal.clone();
                t[h] = b'C';
                t
            },
            g[..k + 1].to_vec(),
            {
                let mut t = g[..k].to_vec();
                t[h] = other(&g, h)[h];
                t.push(b'G');
                t
            },
            {
                let mut t = g[..k].to_vec();
                t[h] = comp(g[h]);
                t.push(b'T');
                t
            },
            {
                let mut t = g[..k].to_vec();
                t[h] = comp(other(&g, h)[h]);
                t.push(b'C');
                t
            },
        ],
    ]
}

pub fn names(n: usize) -> Vec<String> {
    (0..n).map(|i| format!("s{i}")).collect()
}

/// Sample names whose input order is neither alphabetical nor numeric: an output that lists samples in any order
/// other than the input's cannot pass for correct
pub fn odd_name(i: usize) -> String {
    const P: [&str; 12] = ["z", "m", "a", "r", "b", "x", "k", "d", "p", "e", "w", "c"];
    format!("{}{}", P[i % 12], i)
}

pub fn odd_names(n: usize) -> Vec<String> {
    (0..n).map(odd_name).collect()
}
