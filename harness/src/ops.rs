//! File-level operations: each is the real function that the corresponding CLI arm calls,
//! on real .skf files, with the same "try 64-bit, else 128-bit" dispatch as `ska::main`.

use ska::cli::FilterType;
use ska::generic_modes;
use ska::merge_ska_array::MergeSkaArray;
use ska::merge_ska_dict::build_and_merge;

use crate::real::{catch, filter_type, inputs, no_qual};
use crate::refmodel::{Filt, FilterSpec};

pub fn op_build(names: &[String], paths: &[String], k: usize, rc: bool, out: &str) -> Result<(), String> {
    catch(|| {
        if k <= 31 {
            let d = build_and_merge::<u64>(&inputs(names, paths), k, rc, &no_qual(), 1, None);
            generic_modes::save_skf(&d, out);
        } else {
            let d = build_and_merge::<u128>(&inputs(names, paths), k, rc, &no_qual(), 1, None);
            generic_modes::save_skf(&d, out);
        }
    })
}

pub fn op_merge(files: &[String], out: &str) -> Result<(), String> {
    catch(|| {
        if let Ok(first) = MergeSkaArray::<u64>::load(&files[0]) {
            generic_modes::merge(&first, &files[1..], out);
        } else if let Ok(first) = MergeSkaArray::<u128>::load(&files[0]) {
            generic_modes::merge(&first, &files[1..], out);
        } else {
            panic!("Could not read input file: {}", files[0]);
        }
    })
}

pub fn op_delete(file: &str, names: &[String], out: &str) -> Result<(), String> {
    catch(|| {
        let nm: Vec<&str> = names.iter().map(|s| s.as_str()).collect();
        if let Ok(mut a) = MergeSkaArray::<u64>::load(file) {
            generic_modes::delete(&mut a, &nm, out);
        } else if let Ok(mut a) = MergeSkaArray::<u128>::load(file) {
            generic_modes::delete(&mut a, &nm, out);
        } else {
            panic!("Could not read input file: {file}");
        }
    })
}

#[derive(Clone, Debug, PartialEq)]
pub struct WeedArgs {
    pub weed_file: Option<String>,
    pub reverse: bool,
    pub min_freq: f64,
    pub ambig_missing: bool,
    pub filt: Filt,
    pub mask: bool,
    pub nogap: bool,
}

impl WeedArgs {
    pub fn plain(weed_file: &str, reverse: bool) -> WeedArgs {
        WeedArgs { weed_file: Some(weed_file.to_string()), reverse, min_freq: 0.0, ambig_missing: false, filt: Filt::NoFilter, mask: false, nogap: false }
    }
    pub fn filter_only(n: usize, f: &FilterSpec) -> WeedArgs {
        let mf = if f.thr == 0 { 0.0 } else { f.thr as f64 / n as f64 };
        // weed floors: only exactly representable products are used (DESIGN §4 rule 2)
        assert!(f64::floor(n as f64 * mf) as usize == f.thr, "inexact weed frequency");
        WeedArgs { weed_file: None, reverse: false, min_freq: mf, ambig_missing: f.ambig_missing, filt: f.filt, mask: f.mask, nogap: f.nogap }
    }
    pub fn cli_args(&self) -> Vec<String> {
        let mut v = Vec::new();
        if let Some(w) = &self.weed_file {
            v.push(w.clone());
        }
        if self.reverse {
            v.push("--reverse".into());
        }
        v.push("--min-freq".into());
        v.push(format!("{}", self.min_freq));
        v.push("--filter".into());
        v.push(self.filt.cli().into());
        if self.ambig_missing {
            v.push("--filter-ambig-as-missing".into());
        }
        if self.mask {
            v.push("--ambig-mask".into());
        }
        if self.nogap {
            v.push("--no-gap-only-sites".into());
        }
        v
    }
}

pub fn op_weed(file: &str, w: &WeedArgs, out: &str) -> Result<(), String> {
    let ft: FilterType = filter_type(w.filt);
    catch(|| {
        if let Ok(mut a) = MergeSkaArray::<u64>::load(file) {
            generic_modes::weed(&mut a, &w.weed_file, w.reverse, w.min_freq, w.ambig_missing, &ft, w.mask, w.nogap, out);
        } else if let Ok(mut a) = MergeSkaArray::<u128>::load(file) {
            generic_modes::weed(&mut a, &w.weed_file, w.reverse, w.min_freq, w.ambig_missing, &ft, w.mask, w.nogap, out);
        } else {
            panic!("Could not read input file: {file}");
        }
    })
}

pub fn op_reload(file: &str, out: &str) -> Result<(), String> {
    catch(|| {
        if let Ok(a) = MergeSkaArray::<u64>::load(file) {
            a.save(out).expect("save");
        } else if let Ok(a) = MergeSkaArray::<u128>::load(file) {
            a.save(out).expect("save");
        } else {
            panic!("Could not read input file: {file}");
        }
    })
}
