mod bfs;
mod cli;
mod engines;
mod enumerate;
mod explore;
mod forkrun;
mod mirror;
mod observe;
mod ops;
mod real;
mod refmodel;
mod samples;
mod scratch;
mod selftest;

use explore::{Ctx, Report, Tier};
use std::time::Instant;

fn tier_of(s: &str) -> Tier {
    if s == "thorough" {
        Tier::Thorough
    } else {
        Tier::Quick
    }
}

fn usage() -> ! {
    eprintln!("usage: skaverif run <ID> [--tier quick|thorough] [--seed N] | worker ... | replay <ID> <file> | selftest");
    std::process::exit(2)
}

fn main() {
    let args: Vec<String> = std::env::args().collect();
    if args.len() < 2 {
        usage();
    }
    let root = std::env::var("VERIF_ROOT").unwrap_or_else(|_| "/verif".to_string());
    match args[1].as_str() {
        "worker" => {
            // worker <id> <part> <tier> <seed> <shard> <nshards> <cap>
            forkrun::silence_panics();
            let id = &args[2];
            let ctx = Ctx {
                part: args[3].clone(),
                tier: tier_of(&args[4]),
                seed: args[5].parse().unwrap(),
                shard: args[6].parse().unwrap(),
                nshards: args[7].parse().unwrap(),
                cap_s: args[8].parse().unwrap(),
                start: Instant::now(),
            };
            let mut rep = Report::default();
            let r = std::panic::catch_unwind(std::panic::AssertUnwindSafe(|| engines::run_worker(id, &ctx, &mut rep)));
            if let Err(e) = r {
                rep.machinery(format!("engine panicked: {}", forkrun::panic_message(&e)));
            }
            scratch::cleanup();
            println!("{}", serde_json::to_string(&rep).unwrap());
        }
        "run" => {
            let id = args.get(2).cloned().unwrap_or_else(|| usage());
            let mut tier = std::env::var("VERIF_TIER").map(|s| tier_of(&s)).unwrap_or(Tier::Quick);
            let mut seed: u64 = std::env::var("VERIF_SEED").ok().and_then(|s| s.parse::<i64>().ok()).map(|x| x as u64).unwrap_or(0);
            let mut i = 3;
            while i < args.len() {
                match args[i].as_str() {
                    "--tier" => {
                        tier = tier_of(&args[i + 1]);
                        i += 1;
                    }
                    "--seed" => {
                        seed = args[i + 1].parse::<i64>().unwrap_or(0) as u64;
                        i += 1;
                    }
                    _ => usage(),
                }
                i += 1;
            }
            let meta = match engines::meta(&id) {
                Some(m) => m,
                None => {
                    println!("MACHINERY property={id} no such engine");
                    std::process::exit(2);
                }
            };
            let start = Instant::now();
            let mut rep = engines::run_parent(&id, tier, seed);
            // replay before report (DESIGN §4 rule 5): the first violations are re-executed from their recorded
            // case in a fresh process; one that does not reproduce is a machinery error, not a verdict
            let mut kept = Vec::new();
            for (i, v) in std::mem::take(&mut rep.violations).into_iter().enumerate() {
                if i < 4 {
                    let f = scratch::write(&format!("replay_{i}.json"), serde_json::to_string(&serde_json::json!({"case": v.case})).unwrap().as_bytes());
                    let mut rc = std::process::Command::new(std::env::current_exe().unwrap());
                    rc.args(["replay", &id, &f]).stdout(std::process::Stdio::null()).stderr(std::process::Stdio::null());
                    if let Some(sh) = cli::shim() {
                        rc.env("LD_PRELOAD", sh).env("VERIF_HASH_SEED", seed.to_string());
                    }
                    let st = rc.status();
                    if let Ok(st) = st {
                        if st.code() == Some(0) {
                            rep.machinery(format!("violation did not reproduce when replayed in a fresh process: {}", v.what));
                            continue;
                        }
                    }
                }
                kept.push(v);
            }
            rep.violations = kept;
            if rep.violations.is_empty() && rep.violation_count > 0 {
                rep.violation_count = 0;
            }
            let wall = start.elapsed().as_secs_f64();
            let code = explore::conclude(&root, &meta, tier, seed, wall, &rep);
            scratch::cleanup();
            std::process::exit(code);
        }
        "replay" => {
            forkrun::silence_panics();
            let id = args.get(2).cloned().unwrap_or_else(|| usage());
            let file = args.get(3).cloned().unwrap_or_else(|| usage());
            let v: serde_json::Value = serde_json::from_str(&std::fs::read_to_string(&file).expect("read replay file")).expect("parse replay file");
            let r = engines::replay(&id, &v["case"]);
            scratch::cleanup();
            match r {
                Ok(Some(msg)) => {
                    println!("VIOLATION property={id} replay={file} :: {msg}");
                    std::process::exit(1);
                }
                Ok(None) => {
                    println!("replay of {file}: property {id} holds on this case");
                }
                Err(e) => {
                    println!("MACHINERY property={id} {e}");
                    std::process::exit(2);
                }
            }
        }
        "selftest" => match selftest::run() {
            Ok(n) => println!("model self-test: {n} comparisons with the repository's expected outputs agree"),
            Err(e) => {
                println!("MACHINERY model self-test failed: {e}");
                std::process::exit(2);
            }
        },
        _ => usage(),
    }
}
