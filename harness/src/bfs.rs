//! Explicit-state breadth-first search with the real code as transition function.

use std::collections::{HashMap, VecDeque};
use std::hash::Hash;

use crate::explore::{hash64, Ctx, Report};

pub trait Sys {
    type S: Clone + Hash + Eq;
    type A: Clone + std::fmt::Debug;
    fn actions(&self, s: &Self::S) -> Vec<Self::A>;
    /// Execute the real operation. Err = the step itself violates the property (message).
    fn step(&self, s: &Self::S, a: &Self::A) -> Result<Option<Self::S>, String>;
    /// Invariant evaluated in every reached state
    fn invariant(&self, s: &Self::S) -> Result<(), String>;
    fn describe(&self, s: &Self::S) -> serde_json::Value;
}

pub struct Outcome<S, A> {
    /// number of distinct states reached
    pub states: usize,
    pub transitions: u64,
    pub max_depth: usize,
    /// some longest paths (action lists from an initial state index) with their end states
    pub paths: Vec<(usize, Vec<A>, S)>,
    pub closed: bool,
}

/// BFS from `inits` to `max_depth`. If `shard_first_level`, this worker only descends below the
/// first-level successors it owns (ctx.mine), so several workers share one search.
pub fn explore<T: Sys>(sys: &T, inits: &[T::S], max_depth: usize, ctx: &Ctx, rep: &mut Report, label: &str, shard_first_level: bool) -> Outcome<T::S, T::A> {
    let mut seen: HashMap<u64, (Option<u64>, Option<T::A>, usize, usize)> = HashMap::new(); // hash -> (parent, action, depth, init index)
    let mut queue: VecDeque<(T::S, usize)> = VecDeque::new();
    let mut transitions = 0u64;
    let mut maxd = 0usize;
    let mut last_level: Vec<T::S> = Vec::new();
    let path_of = |seen: &HashMap<u64, (Option<u64>, Option<T::A>, usize, usize)>, mut h: u64| -> (usize, Vec<T::A>) {
        let mut acts = Vec::new();
        let mut init = 0;
        while let Some((p, a, _, i)) = seen.get(&h) {
            init = *i;
            if let (Some(p), Some(a)) = (p, a) {
                acts.push(a.clone());
                h = *p;
            } else {
                break;
            }
        }
        acts.reverse();
        (init, acts)
    };
    for (i, s) in inits.iter().enumerate() {
        let h = hash64(s);
        if seen.insert(h, (None, None, 0, i)).is_none() {
            rep.outcomes.insert(h);
            if let Err(e) = sys.invariant(s) {
                rep.violate(format!("{label} initial state {i}: {e}"), e.clone(), serde_json::json!({"label": label, "init": i, "history": [], "state": sys.describe(s)}));
            }
            queue.push_back((s.clone(), 0));
        }
    }
    let mut closed = true;
    let mut first_level_idx = 0u64;
    while let Some((s, d)) = queue.pop_front() {
        if d >= max_depth {
            closed = false;
            continue;
        }
        if ctx.expired() {
            rep.capped = true;
            closed = false;
            break;
        }
        let hs = hash64(&s);
        for a in sys.actions(&s) {
            if shard_first_level && d == 0 {
                first_level_idx += 1;
                if !ctx.mine(first_level_idx) {
                    continue;
                }
            }
            transitions += 1;
            rep.evaluations += 1;
            match sys.step(&s, &a) {
                Err(e) => {
                    let (init, mut hist) = path_of(&seen, hs);
                    hist.push(a.clone());
                    let hist_s: Vec<String> = hist.iter().map(|x| format!("{x:?}")).collect();
                    rep.violate(format!("{label} init={init} history={hist_s:?}"), e, serde_json::json!({"label": label, "init": init, "history": hist_s, "from_state": sys.describe(&s)}));
                }
                Ok(None) => {}
                Ok(Some(n)) => {
                    let hn = hash64(&n);
                    if !seen.contains_key(&hn) {
                        let init = seen[&hs].3;
                        seen.insert(hn, (Some(hs), Some(a.clone()), d + 1, init));
                        rep.outcomes.insert(hn);
                        maxd = maxd.max(d + 1);
                        if let Err(e) = sys.invariant(&n) {
                            let (init, hist) = path_of(&seen, hn);
                            let hist_s: Vec<String> = hist.iter().map(|x| format!("{x:?}")).collect();
                            rep.violate(format!("{label} init={init} history={hist_s:?}"), e, serde_json::json!({"label": label, "init": init, "history": hist_s, "state": sys.describe(&n)}));
                        }
                        if d + 1 == maxd {
                            if last_level.len() < 64 {
                                last_level.push(n.clone());
                            }
                        }
                        queue.push_back((n, d + 1));
                    }
                }
            }
        }
    }
    rep.transitions += transitions;
    let mut paths = Vec::new();
    // longest paths first
    let mut ends: Vec<&T::S> = last_level.iter().collect();
    ends.sort_by_key(|s| std::cmp::Reverse(seen[&hash64(*s)].2));
    for s in ends.into_iter().take(12) {
        let (init, acts) = path_of(&seen, hash64(s));
        paths.push((init, acts, s.clone()));
    }
    Outcome { states: seen.len(), transitions, max_depth: maxd, paths, closed }
}
