//! Deterministic enumerators.

use crate::refmodel::{canon, rc_str};
use std::collections::BTreeSet;

/// Call `f` for every string over `alphabet` of exactly `len` letters (lexicographic in alphabet order).
/// `f` returns false to stop.
pub fn strings<F: FnMut(&[u8]) -> bool>(alphabet: &[u8], len: usize, mut f: F) {
    let a = alphabet.len();
    let mut idx = vec![0usize; len];
    let mut s: Vec<u8> = vec![alphabet[0]; len];
    loop {
        if !f(&s) {
            return;
        }
        // increment
        let mut i = len;
        loop {
            if i == 0 {
                return;
            }
            i -= 1;
            idx[i] += 1;
            if idx[i] < a {
                s[i] = alphabet[idx[i]];
                break;
            }
            idx[i] = 0;
            s[i] = alphabet[0];
        }
    }
}

/// Number of strings of a given length
pub fn count_strings(a: usize, len: usize) -> u64 {
    (a as u64).pow(len as u32)
}

/// The idx-th string of length len over the alphabet (idx in base |alphabet|, most significant first)
pub fn nth_string(alphabet: &[u8], len: usize, mut idx: u64) -> Vec<u8> {
    let a = alphabet.len() as u64;
    let mut s = vec![alphabet[0]; len];
    for i in (0..len).rev() {
        s[i] = alphabet[(idx % a) as usize];
        idx /= a;
    }
    s
}

pub fn splitmix(x: u64) -> u64 {
    let mut z = x.wrapping_add(0x9E37_79B9_7F4A_7C15);
    z = (z ^ (z >> 30)).wrapping_mul(0xBF58_476D_1CE4_E5B9);
    z = (z ^ (z >> 27)).wrapping_mul(0x94D0_49BB_1331_11EB);
    z ^ (z >> 31)
}

/// All subsets of 0..n of size between lo and hi
pub fn subsets(n: usize, lo: usize, hi: usize) -> Vec<Vec<usize>> {
    let mut out = Vec::new();
    for mask in 0u64..(1u64 << n) {
        let c = mask.count_ones() as usize;
        if c >= lo && c <= hi {
            out.push((0..n).filter(|i| mask & (1 << i) != 0).collect());
        }
    }
    out
}

pub fn permutations(n: usize) -> Vec<Vec<usize>> {
    fn rec(cur: &mut Vec<usize>, used: &mut Vec<bool>, n: usize, out: &mut Vec<Vec<usize>>) {
        if cur.len() == n {
            out.push(cur.clone());
            return;
        }
        for i in 0..n {
            if !used[i] {
                used[i] = true;
                cur.push(i);
                rec(cur, used, n, out);
                cur.pop();
                used[i] = false;
            }
        }
    }
    let mut out = Vec::new();
    rec(&mut Vec::new(), &mut vec![false; n], n, &mut out);
    out
}

/// Deterministic "repeat-free" sequence: every window of `w` letters has a canonical form
/// (under `key_of`) not seen before on either strand and is not its own reverse complement.
/// mode 0: uniqueness of split k-mer keys for k = w (both strands merged);
/// mode 1: uniqueness of full w-mers on both strands.
/// Member `member` of the family rotates the base preference order.
pub fn repeat_free(len: usize, w: usize, mode: u8, member: u64) -> Vec<u8> {
    let bases = *b"ACGT";
    let mut seq: Vec<u8> = Vec::with_capacity(len);
    let mut seen: BTreeSet<Vec<u8>> = BTreeSet::new();
    // iterative DFS with explicit choice indices
    let mut choice: Vec<u8> = Vec::with_capacity(len);
    let mut added: Vec<Option<Vec<u8>>> = Vec::with_capacity(len);
    let order = |pos: usize| -> [u8; 4] {
        let r = splitmix(member.wrapping_mul(1_000_003).wrapping_add(pos as u64));
        let mut o = bases;
        // Fisher-Yates with 3 draws from r
        let mut x = r;
        for i in (1..4).rev() {
            let j = (x % (i as u64 + 1)) as usize;
            x /= 7;
            o.swap(i, j);
        }
        o
    };
    let mut next_try: u8 = 0;
    loop {
        if seq.len() == len {
            return seq;
        }
        let pos = seq.len();
        let o = order(pos);
        let mut placed = false;
        let mut t = next_try;
        while t < 4 {
            seq.push(o[t as usize]);
            let mut ok = true;
            let mut key: Option<Vec<u8>> = None;
            if seq.len() >= w {
                let win = &seq[seq.len() - w..];
                let k = match mode {
                    0 => {
                        let (a, m, _) = canon(win, true);
                        if m.count_ones() != 1 {
                            ok = false;
                        }
                        a.into_bytes()
                    }
                    _ => {
                        let r = rc_str(win);
                        if r == win {
                            ok = false;
                        }
                        if r < win.to_vec() {
                            r
                        } else {
                            win.to_vec()
                        }
                    }
                };
                if seen.contains(&k) {
                    ok = false;
                }
                key = Some(k);
            }
            if ok {
                if let Some(k) = &key {
                    seen.insert(k.clone());
                }
                choice.push(t);
                added.push(key);
                placed = true;
                break;
            }
            seq.pop();
            t += 1;
        }
        if placed {
            next_try = 0;
        } else {
            // backtrack
            if seq.is_empty() {
                panic!("repeat_free: no sequence of length {len} for window {w}");
            }
            seq.pop();
            let c = choice.pop().unwrap();
            if let Some(k) = added.pop().unwrap() {
                seen.remove(&k);
            }
            next_try = c + 1;
        }
    }
}
