//! Fork-per-case execution (DESIGN §4 rule 3): code in /repo that configures the global
//! rayon pool or may call process::exit runs in a forked child of a single-threaded
//! worker. Result bytes travel over a pipe.

use std::io::Read;
use std::os::unix::io::FromRawFd;

#[derive(Debug, Clone, PartialEq, Eq)]
pub enum ChildResult {
    /// closure returned normally
    Ok(Vec<u8>),
    /// closure panicked; message
    Panic(String),
    /// child left through process::exit / abort / signal without delivering a result
    Exit(i32),
    /// child did not finish in time and was killed (machinery problem, never a verdict)
    Timeout,
}

pub fn panic_message(e: &Box<dyn std::any::Any + Send>) -> String {
    if let Some(s) = e.downcast_ref::<&str>() {
        s.to_string()
    } else if let Some(s) = e.downcast_ref::<String>() {
        s.clone()
    } else {
        "non-string panic".to_string()
    }
}

pub fn silence_panics() {
    std::panic::set_hook(Box::new(|_| {}));
}

/// Run `f` in a forked child. The calling process must be single-threaded.
pub fn in_child<F: FnOnce() -> Vec<u8>>(f: F, timeout_ms: i32) -> ChildResult {
    let mut fds = [0i32; 2];
    unsafe {
        if libc::pipe(fds.as_mut_ptr()) != 0 {
            panic!("pipe failed");
        }
        let pid = libc::fork();
        if pid < 0 {
            panic!("fork failed");
        }
        if pid == 0 {
            // child
            libc::close(fds[0]);
            // silence stderr/stdout of the code under test
            let devnull = libc::open(b"/dev/null\0".as_ptr() as *const libc::c_char, libc::O_WRONLY);
            if devnull >= 0 {
                libc::dup2(devnull, 1);
                libc::dup2(devnull, 2);
            }
            let res = std::panic::catch_unwind(std::panic::AssertUnwindSafe(f));
            let (tag, payload) = match res {
                Ok(v) => (b'O', v),
                Err(e) => (b'P', panic_message(&e).into_bytes()),
            };
            let mut buf = Vec::with_capacity(payload.len() + 1);
            buf.push(tag);
            buf.extend_from_slice(&payload);
            let mut off = 0;
            while off < buf.len() {
                let n = libc::write(fds[1], buf[off..].as_ptr() as *const libc::c_void, buf.len() - off);
                if n <= 0 {
                    break;
                }
                off += n as usize;
            }
            libc::close(fds[1]);
            libc::_exit(0);
        }
        // parent
        libc::close(fds[1]);
        let mut out = Vec::new();
        let mut file = std::fs::File::from_raw_fd(fds[0]);
        let start = std::time::Instant::now();
        let mut timed_out = false;
        loop {
            let remaining = timeout_ms as i64 - start.elapsed().as_millis() as i64;
            if remaining <= 0 {
                timed_out = true;
                break;
            }
            let mut pfd = libc::pollfd { fd: fds[0], events: libc::POLLIN, revents: 0 };
            let r = libc::poll(&mut pfd, 1, remaining as i32);
            if r < 0 {
                continue;
            }
            if r == 0 {
                timed_out = true;
                break;
            }
            let mut buf = [0u8; 65536];
            match file.read(&mut buf) {
                Ok(0) => break,
                Ok(n) => out.extend_from_slice(&buf[..n]),
                Err(_) => break,
            }
        }
        if timed_out {
            libc::kill(pid, libc::SIGKILL);
        }
        let mut status = 0i32;
        libc::waitpid(pid, &mut status, 0);
        drop(file);
        if timed_out {
            return ChildResult::Timeout;
        }
        if out.is_empty() {
            let code = if libc::WIFEXITED(status) { libc::WEXITSTATUS(status) } else { 128 + libc::WTERMSIG(status) };
            return ChildResult::Exit(code);
        }
        match out[0] {
            b'O' => ChildResult::Ok(out[1..].to_vec()),
            _ => ChildResult::Panic(String::from_utf8_lossy(&out[1..]).to_string()),
        }
    }
}
