//! Observers: every way a later command can look at an .skf, implemented on the real code
//! (always starting from the file itself, so hidden fields are honoured) and on the model
//! (which has no state other than the logical table).

use std::collections::BTreeMap;

use ska::cli::FileType;
use ska::generic_modes;
use ska::merge_ska_array::MergeSkaArray;
use ska::ska_ref::RefSka;

use crate::cli::parse_nk;
use crate::forkrun::{in_child, ChildResult};
use crate::real::{self, Int};
use crate::refmodel::*;

pub type Obs = BTreeMap<String, String>;

pub struct RefSeq {
    pub path: String,
    pub names: Vec<String>,
    pub seqs: Vec<Vec<u8>>,
}

fn cols_str(c: &[Vec<u8>]) -> String {
    c.iter().map(|x| String::from_utf8_lossy(x).to_string()).collect::<Vec<_>>().join(" ")
}

pub fn all_specs(n: usize) -> Vec<FilterSpec> {
    crate::engines::c06::all_specs(n)
}

fn spec_name(f: &FilterSpec) -> String {
    format!("align thr={} {} am={} mask={} nogap={}", f.thr, f.filt.cli(), f.ambig_missing, f.mask, f.nogap)
}

fn nk_canon(names: &[String], k: usize, rc: bool, rows: &BTreeMap<String, Vec<u8>>, counts: &[usize], kmers: usize) -> String {
    let r: Vec<String> = rows.iter().map(|(a, b)| format!("{a}:{}", String::from_utf8_lossy(b))).collect();
    format!("k={k} rc={rc} names={names:?} kmers={kmers} sample_kmers={counts:?} rows=[{}]", r.join(","))
}

pub fn vcf_canon(text: &[u8], contig_names: &[String]) -> Result<String, String> {
    let t = String::from_utf8_lossy(text);
    let mut contigs = Vec::new();
    let mut samples: Vec<String> = Vec::new();
    let mut recs = Vec::new();
    for l in t.lines() {
        if let Some(c) = l.strip_prefix("##contig=<ID=") {
            contigs.push(c.trim_end_matches('>').to_string());
        } else if l.starts_with("#CHROM") {
            samples = l.split('\t').skip(9).map(|s| s.to_string()).collect();
        } else if !l.starts_with('#') && !l.is_empty() {
            let f: Vec<&str> = l.split('\t').collect();
            if f.len() < 10 {
                return Err(format!("short VCF line {l:?}"));
            }
            let mut alleles = vec![f[3].to_string()];
            if f[4] != "." {
                alleles.extend(f[4].split(',').map(|a| a.to_string()));
            }
            let ci = contig_names.iter().position(|n| n == f[0]).ok_or(format!("unknown contig {}", f[0]))?;
            let mut dec = String::new();
            for g in &f[9..] {
                if *g == "." {
                    dec.push('.');
                } else {
                    let i: usize = g.parse().map_err(|_| format!("GT {g}"))?;
                    dec.push_str(alleles.get(i).ok_or(format!("GT {g} without allele"))?);
                }
            }
            recs.push(format!("{ci}:{}:{}:{dec}", f[1], f[3]));
        }
    }
    Ok(format!("contigs={contigs:?} samples={samples:?} recs=[{}]", recs.join(",")))
}

pub fn model_vcf_canon(reference: &RefSeq, names: &[String], alns: &[Vec<Vec<u8>>]) -> String {
    let recs: Vec<String> = model_vcf(&reference.seqs, alns)
        .iter()
        .map(|(ci, p, r, d)| format!("{ci}:{p}:{}:{}", *r as char, String::from_utf8_lossy(d)))
        .collect();
    format!("contigs={:?} samples={names:?} recs=[{}]", reference.names, recs.join(","))
}

pub struct ObsCfg<'a> {
    pub align: bool,
    pub distance: bool,
    pub refs: &'a [RefSeq],
    pub vcf: bool,
}

fn real_file<I: Int>(path: &str, cfg: &ObsCfg, out: &mut Obs) -> Result<(), String> {
    let load = || MergeSkaArray::<I>::load(path).map_err(|e| format!("load failed: {e}"));
    let a = load()?;
    let n = a.nsamples();
    // nk
    let text = format!("{a}\n{a:?}");
    let nk = parse_nk(text.as_bytes())?;
    if nk.row_lines != nk.rows.len() {
        return Err("nk lists a k-mer twice".into());
    }
    out.insert("nk".into(), nk_canon(&nk.names, nk.k, nk.rc, &nk.rows, &nk.sample_kmers, nk.kmers));
    let unambig = !nk.rows.values().any(|r| r.iter().any(|b| is_ambig(*b)));
    drop(a);
    if cfg.align {
        for f in all_specs(n) {
            let mut a = load()?;
            let r = real::align_array(&mut a, freq_for_threshold(f.thr, n), &f);
            let v = match r {
                Ok((names, seqs)) => match real::columns_of(&seqs) {
                    Ok(c) => format!("names={names:?} cols=[{}]", cols_str(&c)),
                    Err(e) => format!("ERR {e}"),
                },
                Err(e) => format!("PANIC {e}"),
            };
            out.insert(spec_name(&f), v);
        }
    }
    if cfg.distance && unambig && n >= 2 {
        let p = path.to_string();
        let scratch_out = crate::scratch::path("obs.dist");
        let r = in_child(
            || {
                std::env::set_var("RAYON_NUM_THREADS", "1");
                let mut all = String::new();
                for thr in 0..=n {
                    for aa in [false, true] {
                        let mut a = MergeSkaArray::<I>::load(&p).expect("load");
                        generic_modes::distance(&mut a, &Some(scratch_out.clone()), freq_for_threshold(thr, n), !aa, 1);
                        all.push_str(&format!("#thr={thr} aa={aa}\n"));
                        all.push_str(&std::fs::read_to_string(&scratch_out).unwrap_or_default());
                    }
                }
                all.into_bytes()
            },
            20_000,
        );
        match r {
            ChildResult::Ok(b) => {
                let t = String::from_utf8_lossy(&b).to_string();
                let mut cur = String::new();
                let mut acc: Vec<String> = Vec::new();
                for l in t.lines() {
                    if let Some(h) = l.strip_prefix('#') {
                        if !cur.is_empty() {
                            out.insert(format!("distance {cur}"), acc.join("|"));
                        }
                        cur = h.to_string();
                        acc.clear();
                    } else if !l.starts_with("Sample1") {
                        acc.push(l.to_string());
                    }
                }
                if !cur.is_empty() {
                    out.insert(format!("distance {cur}"), acc.join("|"));
                }
            }
            ChildResult::Timeout => return Err("MACHINERY distance child timed out".into()),
            other => {
                out.insert("distance".into(), format!("{other:?}"));
            }
        }
    }
    for (ri, rf) in cfg.refs.iter().enumerate() {
        for vcf in [false, true] {
            if vcf && !cfg.vcf {
                continue;
            }
            let p = path.to_string();
            let rp = rf.path.clone();
            let outp = crate::scratch::path("obs.map");
            let r = in_child(
                || {
                    let a = MergeSkaArray::<I>::load(&p).expect("load");
                    let mut sr = RefSka::<I>::new(a.kmer_len(), &rp, a.rc(), false, false);
                    generic_modes::map(&a, &mut sr, &Some(outp.clone()), if vcf { &FileType::Vcf } else { &FileType::Aln }, 1);
                    std::fs::read(&outp).unwrap_or_default()
                },
                20_000,
            );
            let key = format!("map ref{ri} {}", if vcf { "vcf" } else { "aln" });
            let v = match r {
                ChildResult::Ok(b) => {
                    if vcf {
                        vcf_canon(&b, &rf.names).unwrap_or_else(|e| format!("ERR {e}"))
                    } else {
                        let (names, seqs) = real::parse_fasta(&b);
                        format!("names={names:?} seqs={:?}", seqs.iter().map(|s| String::from_utf8_lossy(s).to_string()).collect::<Vec<_>>())
                    }
                }
                ChildResult::Panic(m) if m.contains("No split k-mers mapped") => "REFUSED no k-mer mapped".to_string(),
                ChildResult::Timeout => return Err("MACHINERY map child timed out".into()),
                other => format!("{other:?}"),
            };
            out.insert(key, v);
        }
    }
    Ok(())
}

/// All observers on the real file
pub fn real_obs(path: &str, k_bits: u32, cfg: &ObsCfg) -> Result<Obs, String> {
    let mut o = Obs::new();
    if k_bits == 64 {
        real_file::<u64>(path, cfg, &mut o)?;
    } else {
        real_file::<u128>(path, cfg, &mut o)?;
    }
    Ok(o)
}

/// The same observers computed by the model from the logical table alone
pub fn model_obs(t: &Table, cfg: &ObsCfg) -> Obs {
    let mut out = Obs::new();
    let n = t.names.len();
    out.insert("nk".into(), nk_canon(&t.names, t.k, t.rc, &t.rows, &t.sample_counts(), t.rows.len()));
    if cfg.align {
        for f in all_specs(n) {
            out.insert(spec_name(&f), format!("names={:?} cols=[{}]", t.names, cols_str(&t.filter(&f).columns())));
        }
    }
    if cfg.distance && !t.has_ambig() && n >= 2 {
        for thr in 0..=n {
            for aa in [false, true] {
                out.insert(format!("distance thr={thr} aa={aa}"), t.distance_lines(thr).join("|"));
            }
        }
    }
    let dicts: Vec<BTreeMap<String, u8>> = (0..n).map(|i| t.rows.iter().filter(|(_, r)| r[i] != b'-').map(|(a, r)| (a.clone(), r[i])).collect()).collect();
    for (ri, rf) in cfg.refs.iter().enumerate() {
        let (alns, any) = model_map(&rf.seqs, &dicts, t.k, t.rc, false, false);
        for vcf in [false, true] {
            if vcf && !cfg.vcf {
                continue;
            }
            let key = format!("map ref{ri} {}", if vcf { "vcf" } else { "aln" });
            let v = if !any {
                "REFUSED no k-mer mapped".to_string()
            } else if vcf {
                model_vcf_canon(rf, &t.names, &alns)
            } else {
                format!("names={:?} seqs={:?}", t.names, alns.iter().map(|a| String::from_utf8_lossy(&a.concat()).to_string()).collect::<Vec<_>>())
            };
            out.insert(key, v);
        }
    }
    out
}

pub fn first_difference(real: &Obs, model: &Obs) -> Option<String> {
    for (k, mv) in model {
        match real.get(k) {
            None => return Some(format!("observer '{k}' missing on the real side")),
            Some(rv) if rv != mv => {
                // a map with no matching k-mer may also print all gaps
                if mv.starts_with("REFUSED") && k.starts_with("map") {
                    continue;
                }
                let cut = |s: &String| if s.len() > 300 { format!("{}…", &s[..300]) } else { s.clone() };
                return Some(format!("observer '{k}': real gives {} but the logical content determines {}", cut(rv), cut(mv)));
            }
            _ => {}
        }
    }
    None
}
