fn main() { ska::main() }
