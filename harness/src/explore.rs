//! Work distribution over worker processes, counters, evidence, verdict lines.

use serde::{Deserialize, Serialize};
use serde_json::{json, Value};
use std::collections::{BTreeMap, BTreeSet};
use std::hash::{Hash, Hasher};
use std::io::Write;
use std::process::{Command, Stdio};
use std::time::Instant;

#[derive(Clone, Copy, PartialEq, Eq, Debug)]
pub enum Tier {
    Quick,
    Thorough,
}
impl Tier {
    pub fn name(&self) -> &'static str {
        match self {
            Tier::Quick => "quick",
            Tier::Thorough => "thorough",
        }
    }
    pub fn thorough(&self) -> bool {
        *self == Tier::Thorough
    }
}

pub struct Ctx {
    pub tier: Tier,
    pub seed: u64,
    pub shard: usize,
    pub nshards: usize,
    pub start: Instant,
    pub cap_s: f64,
    /// optional engine part selector (used by engines that have several worker phases)
    pub part: String,
}

impl Ctx {
    pub fn mine(&self, idx: u64) -> bool {
        (idx % self.nshards as u64) as usize == self.shard
    }
    pub fn expired(&self) -> bool {
        self.start.elapsed().as_secs_f64() > self.cap_s
    }
}

#[derive(Serialize, Deserialize, Clone, Debug)]
pub struct Violation {
    /// stable identity of the failing case (used to match known findings and to dedupe)
    pub key: String,
    /// one-line description
    pub what: String,
    /// the replayable case
    pub case: Value,
}

#[derive(Serialize, Deserialize, Default, Debug)]
pub struct Report {
    pub evaluations: u64,
    pub nontrivial: u64,
    /// hashes of distinct expected outcomes
    pub outcomes: BTreeSet<u64>,
    pub corners: BTreeMap<String, u64>,
    pub violations: Vec<Violation>,
    pub violation_count: u64,
    pub samples: Vec<Value>,
    pub states: u64,
    pub transitions: u64,
    pub traces_validated: u64,
    pub capped: bool,
    pub completed: Vec<String>,
    #[serde(default)]
    pub completed_counts: BTreeMap<String, u64>,
    pub machinery_errors: Vec<String>,
    pub extra: BTreeMap<String, Value>,
}

pub fn hash64<T: Hash>(t: &T) -> u64 {
    let mut h = std::collections::hash_map::DefaultHasher::new();
    t.hash(&mut h);
    h.finish()
}

impl Report {
    pub fn corner(&mut self, name: &str) {
        *self.corners.entry(name.to_string()).or_insert(0) += 1;
    }
    pub fn corner_n(&mut self, name: &str, n: u64) {
        *self.corners.entry(name.to_string()).or_insert(0) += n;
    }
    pub fn outcome<T: Hash>(&mut self, t: &T) {
        if self.outcomes.len() < 2_000_000 {
            self.outcomes.insert(hash64(t));
        }
    }
    pub fn sample(&mut self, v: Value) {
        if self.samples.len() < 6 {
            self.samples.push(v);
        }
    }
    pub fn violate(&mut self, key: String, what: String, case: Value) {
        let (key, what, case) = if crate::cli::debug_profile() {
            let mut c = case;
            if let Some(o) = c.as_object_mut() {
                o.insert("profile".into(), Value::String("overflow-checked".into()));
            }
            (format!("[overflow-checked build] {key}"), format!("[overflow-checked (dev-profile) build of the same source] {what}"), c)
        } else {
            (key, what, case)
        };
        // a vanished scratch file is the harness's problem (someone removed /dev/shm/skaverif.*), never a verdict
        if what.contains("Invalid path/file") && what.contains("skaverif.") {
            self.machinery(format!("scratch file vanished during the run: {}", what.chars().take(160).collect::<String>()));
            return;
        }
        self.violation_count += 1;
        self.store(Violation { key, what, case });
    }
    /// Keep at most 60 distinct violations, and at most 8 per family (first word of the key), so that a family which
    /// fails everywhere cannot crowd out the one failure of another family.
    fn store(&mut self, v: Violation) {
        let fam = |k: &str| k.split_whitespace().next().unwrap_or("").to_string();
        if self.violations.len() < 60 && !self.violations.iter().any(|x| x.key == v.key) && self.violations.iter().filter(|x| fam(&x.key) == fam(&v.key)).count() < 8 {
            self.violations.push(v);
        }
    }
    pub fn machinery(&mut self, msg: String) {
        if self.machinery_errors.len() < 20 {
            self.machinery_errors.push(msg);
        }
    }
    pub fn merge(&mut self, o: Report) {
        self.evaluations += o.evaluations;
        self.nontrivial += o.nontrivial;
        self.outcomes.extend(o.outcomes);
        for (k, v) in o.corners {
            *self.corners.entry(k).or_insert(0) += v;
        }
        self.violation_count += o.violation_count;
        for v in o.violations {
            self.store(v);
        }
        for s in o.samples {
            if self.samples.len() < 8 {
                self.samples.push(s);
            }
        }
        self.states += o.states;
        self.transitions += o.transitions;
        self.traces_validated += o.traces_validated;
        self.capped |= o.capped;
        for c in o.completed {
            *self.completed_counts.entry(c).or_insert(0) += 1;
        }
        self.machinery_errors.extend(o.machinery_errors);
        for (k, v) in o.extra {
            match (self.extra.get(&k).and_then(|x| x.as_u64()), v.as_u64()) {
                (Some(a), Some(b)) => {
                    if k.starts_with("max_") || k.ends_with("_bound") {
                        self.extra.insert(k, json!(a.max(b)));
                    } else if k.starts_with("min_") {
                        self.extra.insert(k, json!(a.min(b)));
                    } else {
                        self.extra.insert(k, json!(a + b));
                    }
                }
                _ => {
                    self.extra.entry(k).or_insert(v);
                }
            }
        }
    }
}

pub fn ncpu() -> usize {
    std::env::var("VERIF_JOBS")
        .ok()
        .and_then(|s| s.parse().ok())
        .unwrap_or_else(|| std::thread::available_parallelism().map(|n| n.get()).unwrap_or(8))
        .clamp(1, 64)
}

/// Run the engine `id` (optionally a named part) sharded over worker processes and merge reports.
pub fn run_sharded(id: &str, part: &str, tier: Tier, seed: u64, cap_s: f64, nshards: usize, preload: Option<&str>) -> Report {
    let exe = std::env::current_exe().expect("current_exe");
    let scratch = crate::scratch::dir().to_str().unwrap().to_string();
    let mut children = Vec::new();
    for shard in 0..nshards {
        let mut cmd = Command::new(&exe);
        cmd.arg("worker")
            .arg(id)
            .arg(part)
            .arg(tier.name())
            .arg(seed.to_string())
            .arg(shard.to_string())
            .arg(nshards.to_string())
            .arg(format!("{cap_s}"))
            .env("VERIF_SCRATCH", &scratch)
            .stdin(Stdio::null())
            .stdout(Stdio::piped())
            .stderr(Stdio::inherit());
        if let Some(p) = preload {
            cmd.env("LD_PRELOAD", p);
        }
        children.push(cmd.spawn().expect("spawn worker"));
    }
    let mut total = Report::default();
    for (i, ch) in children.into_iter().enumerate() {
        let out = ch.wait_with_output().expect("worker wait");
        if !out.status.success() {
            total.machinery(format!("worker {i} of {id}/{part} exited with {:?}", out.status));
            continue;
        }
        match serde_json::from_slice::<Report>(&out.stdout) {
            Ok(r) => total.merge(r),
            Err(e) => total.machinery(format!("worker {i} of {id}/{part}: unparsable report: {e}")),
        }
    }
    // a sub-space counts as completed only if every shard completed it
    let mut done: Vec<String> = total.completed_counts.iter().filter(|(_, n)| **n == nshards as u64).map(|(k, _)| k.clone()).collect();
    done.sort();
    total.completed.extend(done);
    total.completed_counts.clear();
    total
}

pub struct Meta {
    pub id: &'static str,
    pub level: &'static str,
    pub rule: String,
    pub assumptions: Vec<String>,
    pub exhaustive_when_uncapped: bool,
}

#[derive(Debug)]
pub struct Known {
    pub property: String,
    pub needle: String,
    pub line: String,
}

pub fn load_known(root: &str) -> Vec<Known> {
    let mut v = Vec::new();
    if let Ok(text) = std::fs::read_to_string(format!("{root}/known_findings.txt")) {
        for line in text.lines() {
            let l = line.trim();
            // open findings: "known: property=<id> key=<substring of violation key> <description>"
            if let Some(rest) = l.strip_prefix("known:") {
                let mut prop = String::new();
                let mut needle = String::new();
                for tok in rest.split_whitespace() {
                    if let Some(p) = tok.strip_prefix("property=") {
                        prop = p.to_string();
                    } else if let Some(k) = tok.strip_prefix("key=") {
                        needle = k.to_string();
                    }
                }
                if !prop.is_empty() && !needle.is_empty() {
                    v.push(Known { property: prop, needle, line: l.to_string() });
                }
            }
        }
    }
    v
}

/// Write evidence, replay files and verdict lines; returns the process exit code.
pub fn conclude(root: &str, meta: &Meta, tier: Tier, seed: u64, wall: f64, rep: &Report) -> i32 {
    let known = load_known(root);
    let mut unknown: Vec<&Violation> = Vec::new();
    let mut known_hits: BTreeSet<String> = BTreeSet::new();
    for v in &rep.violations {
        if let Some(k) = known.iter().find(|k| k.property == meta.id && v.key.contains(&k.needle)) {
            known_hits.insert(format!("KNOWN-FINDING: property={} {}", meta.id, k.line));
        } else {
            unknown.push(v);
        }
    }
    let known_stored = (rep.violations.len() - unknown.len()) as u64;
    let distinct = rep.outcomes.len() as u64;
    let nontrivial = if rep.nontrivial > 0 { rep.nontrivial } else { distinct };
    let mut coverage = json!({
        "evaluations": rep.evaluations,
        "distinct_nontrivial": nontrivial,
        "distinct_expected_outcomes": distinct,
        "rule": meta.rule,
        "samples": rep.samples,
        "corners": rep.corners,
        "exhaustive": meta.exhaustive_when_uncapped && !rep.capped,
        "capped": rep.capped,
        "completed_subspaces": rep.completed,
    });
    if meta.level == "model_checking" {
        let states = if rep.states > 0 { rep.states } else { distinct };
        coverage["states"] = json!(states);
        coverage["transitions"] = json!(rep.transitions);
        coverage["traces_validated_against_impl"] = json!(rep.traces_validated);
    }
    for (k, v) in &rep.extra {
        coverage[k] = v.clone();
    }
    let ev = json!({
        "property_id": meta.id,
        "tier": tier.name(),
        "seed": seed,
        "level": meta.level,
        "coverage": coverage,
        "assumptions": meta.assumptions,
        "wall_s": wall,
        "violations": if unknown.is_empty() { 0 } else { rep.violation_count.saturating_sub(known_stored) },
        "known_findings_met": known_stored,
        "machinery_errors": rep.machinery_errors,
    });
    // a side pass (the dev-profile repetition of the thorough tier) writes its evidence elsewhere; the driver merges it
    let evdir = std::env::var("VERIF_EVIDENCE_DIR").unwrap_or_else(|_| format!("{root}/evidence"));
    let label = std::env::var("VERIF_PASS_LABEL").ok();
    let _ = std::fs::create_dir_all(&evdir);
    std::fs::write(format!("{evdir}/{}.json", meta.id), serde_json::to_string_pretty(&ev).unwrap()).expect("write evidence");

    let mut out = std::io::stdout();
    for l in &known_hits {
        let _ = writeln!(out, "{l}");
    }
    let _ = writeln!(
        out,
        "{} tier={} evaluations={} distinct_outcomes={} states={} transitions={} capped={} wall={:.1}s violations={}{}",
        meta.id,
        tier.name(),
        rep.evaluations,
        distinct,
        rep.states,
        rep.transitions,
        rep.capped,
        wall,
        if unknown.is_empty() { 0 } else { rep.violation_count.saturating_sub(known_stored) },
        if known_stored > 0 { format!(" known_findings_met={known_stored}") } else { String::new() }
    );
    if !rep.machinery_errors.is_empty() {
        for m in &rep.machinery_errors {
            let _ = writeln!(out, "MACHINERY property={} {}", meta.id, m);
        }
        if unknown.is_empty() {
            return 2;
        }
    }
    if unknown.is_empty() {
        return 0;
    }
    let dir = format!("{root}/replays/{}", meta.id);
    let _ = std::fs::create_dir_all(&dir);
    // print one violation of every family before a second one of any (at most 12 lines)
    let fam = |k: &str| k.split_whitespace().next().unwrap_or("").to_string();
    let mut seen: BTreeMap<String, usize> = BTreeMap::new();
    let mut ranked: Vec<(usize, usize, &Violation)> = unknown
        .iter()
        .enumerate()
        .map(|(i, v)| {
            let r = seen.entry(fam(&v.key)).or_insert(0);
            *r += 1;
            (*r, i, *v)
        })
        .collect();
    ranked.sort_by_key(|x| (x.0, x.1));
    for (_, _, v) in ranked.iter().take(12) {
        let path = format!("{dir}/{:016x}.json", hash64(&v.key));
        let mut body = json!({"property": meta.id, "key": v.key, "what": v.what, "case": v.case, "seed": seed,
            "replay": format!("./check {} --replay {}", meta.id, path)});
        let mut what = v.what.clone();
        if let Some(l) = &label {
            body["harness_profile"] = json!("dev");
            what = format!("[{l}] {what}");
        }
        let _ = std::fs::write(&path, serde_json::to_string_pretty(&body).unwrap());
        let _ = writeln!(out, "VIOLATION property={} replay={} :: {}", meta.id, path, what);
    }
    1
}
