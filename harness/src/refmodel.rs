//! Reference model: deliberately boring, string/set based. Knows nothing about bit
//! packing, hashing, rolling windows, writer state machines or file formats.
//!
//! Conventions: sequences are byte strings; the model upper-cases on entry. A split
//! k-mer key is the (k-1)-letter string `upper arm ++ lower arm`. A middle base set
//! is a 4-bit mask (A=1, C=2, G=4, T=8). Missing is `b'-'`.

use std::collections::{BTreeMap, BTreeSet};

pub fn comp(b: u8) -> u8 {
    match b {
        b'A' => b'T',
        b'C' => b'G',
        b'G' => b'C',
        b'T' => b'A',
        _ => panic!("comp of non-base {}", b as char),
    }
}

/// Letter order used for "lower-ordered orientation": A < C < T < G
pub fn ord(b: u8) -> u8 {
    match b {
        b'A' => 0,
        b'C' => 1,
        b'T' => 2,
        b'G' => 3,
        _ => panic!("ord of non-base {}", b as char),
    }
}

pub fn upper(s: &[u8]) -> Vec<u8> {
    s.iter().map(|c| c.to_ascii_uppercase()).collect()
}

/// Reverse complement of an upper-case A/C/G/T string
pub fn rc_str(s: &[u8]) -> Vec<u8> {
    s.iter().rev().map(|c| comp(*c)).collect()
}

/// Reverse complement of a string that may contain N (and lower case): N stays N
pub fn rc_str_n(s: &[u8]) -> Vec<u8> {
    s.iter()
        .rev()
        .map(|c| match c.to_ascii_uppercase() {
            b'N' => b'N',
            x => comp(x),
        })
        .collect()
}

pub fn base_bit(b: u8) -> u8 {
    match b {
        b'A' => 1,
        b'C' => 2,
        b'G' => 4,
        b'T' => 8,
        _ => panic!("base_bit of {}", b as char),
    }
}

/// The IUPAC code <-> base set bijection, written out once.
pub const IUPAC_SETS: [(u8, u8); 15] = [
    (b'A', 1),
    (b'C', 2),
    (b'G', 4),
    (b'T', 8),
    (b'R', 1 | 4),
    (b'Y', 2 | 8),
    (b'S', 2 | 4),
    (b'W', 1 | 8),
    (b'K', 4 | 8),
    (b'M', 1 | 2),
    (b'B', 2 | 4 | 8),
    (b'D', 1 | 4 | 8),
    (b'H', 1 | 2 | 8),
    (b'V', 1 | 2 | 4),
    (b'N', 15),
];

pub fn code_of(mask: u8) -> u8 {
    for (c, m) in IUPAC_SETS {
        if m == mask {
            return c;
        }
    }
    panic!("no code for mask {mask}")
}

pub fn set_of(code: u8) -> Option<u8> {
    for (c, m) in IUPAC_SETS {
        if c == code {
            return Some(m);
        }
    }
    None
}

pub fn comp_mask(mask: u8) -> u8 {
    let mut o = 0;
    if mask & 1 != 0 {
        o |= 8;
    }
    if mask & 2 != 0 {
        o |= 4;
    }
    if mask & 4 != 0 {
        o |= 2;
    }
    if mask & 8 != 0 {
        o |= 1;
    }
    o
}

/// Complement of an IUPAC code ('-' stays '-')
pub fn rc_code(code: u8) -> u8 {
    if code == b'-' {
        return b'-';
    }
    code_of(comp_mask(set_of(code).expect("rc_code of non-code")))
}

/// A symbol counts as ambiguous when it is an IUPAC letter other than A/C/G/T/U (and not gap)
pub fn is_ambig(b: u8) -> bool {
    !matches!(b, b'A' | b'C' | b'G' | b'T' | b'U' | b'-')
}

fn key_cmp(a: &[u8], b: &[u8]) -> std::cmp::Ordering {
    let ka: Vec<u8> = a.iter().map(|c| ord(*c)).collect();
    let kb: Vec<u8> = b.iter().map(|c| ord(*c)).collect();
    ka.cmp(&kb)
}

/// Canonical form of one window of k upper-case A/C/G/T letters.
/// Returns (key, middle base mask, whether the reverse complement was chosen).
pub fn canon(w: &[u8], rc: bool) -> (String, u8, bool) {
    let k = w.len();
    let h = (k - 1) / 2;
    let mut arms = w[..h].to_vec();
    arms.extend_from_slice(&w[h + 1..]);
    let m = w[h];
    if !rc {
        return (String::from_utf8(arms).unwrap(), base_bit(m), false);
    }
    let r = rc_str(w);
    let mut rarms = r[..h].to_vec();
    rarms.extend_from_slice(&r[h + 1..]);
    let rm = r[h];
    match key_cmp(&arms, &rarms) {
        std::cmp::Ordering::Greater => (String::from_utf8(rarms).unwrap(), base_bit(rm), true),
        std::cmp::Ordering::Equal => (
            String::from_utf8(arms).unwrap(),
            base_bit(m) | base_bit(rm),
            false,
        ),
        std::cmp::Ordering::Less => (String::from_utf8(arms).unwrap(), base_bit(m), false),
    }
}

/// All windows of k consecutive non-N letters: (centre position, upper-cased window)
pub fn windows(seq: &[u8], k: usize) -> Vec<(usize, Vec<u8>)> {
    let h = (k - 1) / 2;
    let mut out = Vec::new();
    if seq.len() < k {
        return out;
    }
    let u = upper(seq);
    for i in 0..=(u.len() - k) {
        let w = &u[i..i + k];
        if w.iter().any(|c| !matches!(c, b'A' | b'C' | b'G' | b'T')) {
            continue;
        }
        out.push((i + h, w.to_vec()));
    }
    out
}

/// Split k-mer dictionary of a set of records: key -> IUPAC code
pub fn build(records: &[Vec<u8>], k: usize, rc: bool) -> BTreeMap<String, u8> {
    let mut d: BTreeMap<String, u8> = BTreeMap::new();
    for seq in records {
        for (_, w) in windows(seq, k) {
            let (a, ms, _) = canon(&w, rc);
            *d.entry(a).or_insert(0) |= ms;
        }
    }
    d.into_iter().map(|(a, m)| (a, code_of(m))).collect()
}

#[derive(Clone, Copy, PartialEq, Eq, Hash, Debug, PartialOrd, Ord)]
pub enum Filt {
    NoFilter,
    NoConst,
    NoAmbig,
    NoAmbigOrConst,
}

impl Filt {
    pub const ALL: [Filt; 4] = [Filt::NoFilter, Filt::NoConst, Filt::NoAmbig, Filt::NoAmbigOrConst];
    pub fn cli(&self) -> &'static str {
        match self {
            Filt::NoFilter => "no-filter",
            Filt::NoConst => "no-const",
            Filt::NoAmbig => "no-ambig",
            Filt::NoAmbigOrConst => "no-ambig-or-const",
        }
    }
}

#[derive(Clone, Copy, PartialEq, Eq, Hash, Debug, PartialOrd, Ord)]
pub struct FilterSpec {
    /// integer sample threshold (the model applies max(1, thr))
    pub thr: usize,
    pub filt: Filt,
    pub ambig_missing: bool,
    pub mask: bool,
    pub nogap: bool,
}

/// Does a row (one byte per sample) pass the filter of the statement of C06?
pub fn row_passes(r: &[u8], f: &FilterSpec) -> bool {
    let cnt = r
        .iter()
        .filter(|b| **b != b'-' && !(f.ambig_missing && is_ambig(**b)))
        .count();
    if cnt < usize::max(1, f.thr) {
        return false;
    }
    match f.filt {
        Filt::NoFilter => true,
        Filt::NoConst => {
            let s: BTreeSet<u8> = r.iter().copied().filter(|b| !(f.nogap && *b == b'-')).collect();
            s.len() > 1
        }
        Filt::NoAmbig => !r.iter().any(|b| is_ambig(*b)),
        Filt::NoAmbigOrConst => {
            let s: BTreeSet<u8> = r
                .iter()
                .copied()
                .filter(|b| matches!(b, b'A' | b'C' | b'G' | b'T') || (*b == b'-' && !f.nogap))
                .collect();
            s.len() > 1
        }
    }
}

pub fn mask_row(r: &[u8], mask: bool) -> Vec<u8> {
    r.iter().map(|b| if mask && is_ambig(*b) { b'N' } else { *b }).collect()
}

/// The plain sample-by-k-mer table
#[derive(Clone, PartialEq, Eq, Hash, Debug, PartialOrd, Ord)]
pub struct Table {
    pub k: usize,
    pub rc: bool,
    pub names: Vec<String>,
    pub rows: BTreeMap<String, Vec<u8>>,
}

impl Table {
    pub fn from_samples(k: usize, rc: bool, names: &[String], samples: &[Vec<Vec<u8>>]) -> Table {
        let mut rows: BTreeMap<String, Vec<u8>> = BTreeMap::new();
        for (i, recs) in samples.iter().enumerate() {
            for (a, b) in build(recs, k, rc) {
                rows.entry(a).or_insert_with(|| vec![b'-'; names.len()])[i] = b;
            }
        }
        Table { k, rc, names: names.to_vec(), rows }
    }

    pub fn nsamples(&self) -> usize {
        self.names.len()
    }

    pub fn merge(&self, other: &Table) -> Table {
        let n1 = self.names.len();
        let n2 = other.names.len();
        let mut rows = BTreeMap::new();
        let keys: BTreeSet<&String> = self.rows.keys().chain(other.rows.keys()).collect();
        for a in keys {
            let mut r = self.rows.get(a).cloned().unwrap_or_else(|| vec![b'-'; n1]);
            r.extend(other.rows.get(a).cloned().unwrap_or_else(|| vec![b'-'; n2]));
            rows.insert(a.clone(), r);
        }
        let mut names = self.names.clone();
        names.extend(other.names.iter().cloned());
        Table { k: self.k, rc: self.rc, names, rows }
    }

    pub fn delete(&self, del: &[String]) -> Table {
        let keep: Vec<usize> = (0..self.names.len()).filter(|i| !del.contains(&self.names[*i])).collect();
        let mut rows = BTreeMap::new();
        for (a, r) in &self.rows {
            let nr: Vec<u8> = keep.iter().map(|i| r[*i]).collect();
            if nr.iter().any(|b| *b != b'-') {
                rows.insert(a.clone(), nr);
            }
        }
        Table { k: self.k, rc: self.rc, names: keep.iter().map(|i| self.names[*i].clone()).collect(), rows }
    }

    pub fn weed(&self, seqs: &[Vec<u8>], reverse: bool) -> Table {
        let wk = build(seqs, self.k, self.rc);
        let rows = self
            .rows
            .iter()
            .filter(|(a, _)| wk.contains_key(*a) == reverse)
            .map(|(a, r)| (a.clone(), r.clone()))
            .collect();
        Table { k: self.k, rc: self.rc, names: self.names.clone(), rows }
    }

    pub fn filter(&self, f: &FilterSpec) -> Table {
        let rows = self
            .rows
            .iter()
            .filter(|(_, r)| row_passes(r, f))
            .map(|(a, r)| (a.clone(), mask_row(r, f.mask)))
            .collect();
        Table { k: self.k, rc: self.rc, names: self.names.clone(), rows }
    }

    /// Alignment columns as a sorted multiset (one string of n bytes per row)
    pub fn columns(&self) -> Vec<Vec<u8>> {
        let mut c: Vec<Vec<u8>> = self.rows.values().cloned().collect();
        c.sort();
        c
    }

    pub fn sample_counts(&self) -> Vec<usize> {
        (0..self.names.len())
            .map(|i| self.rows.values().filter(|r| r[i] != b'-').count())
            .collect()
    }

    pub fn has_ambig(&self) -> bool {
        self.rows.values().any(|r| r.iter().any(|b| is_ambig(*b)))
    }

    /// Lines of `ska distance` (without header) for an unambiguous table
    pub fn distance_lines(&self, thr: usize) -> Vec<String> {
        let rows: Vec<&Vec<u8>> = self
            .rows
            .values()
            .filter(|r| r.iter().filter(|b| **b != b'-').count() >= thr)
            .collect();
        let n = self.names.len();
        let mut out = Vec::new();
        for i in 0..n {
            for j in (i + 1)..n {
                let snps = rows.iter().filter(|r| r[i] != b'-' && r[j] != b'-' && r[i] != r[j]).count();
                let one = rows.iter().filter(|r| (r[i] == b'-') != (r[j] == b'-')).count();
                let any = rows.iter().filter(|r| r[i] != b'-' || r[j] != b'-').count();
                let mm = if any == 0 { 0.0 } else { one as f64 / any as f64 };
                out.push(format!("{}\t{}\t{:.2}\t{:.5}", self.names[i], self.names[j], snps as f64, mm));
            }
        }
        out
    }
}

/// Parsed integer threshold for a frequency: ceil(n*f) as align/distance compute it
pub fn freq_for_threshold(t: usize, n: usize) -> f64 {
    if t == 0 {
        0.0
    } else {
        (t as f64 - 0.5) / n as f64
    }
}

/// Model of `ska map`: per sample, per contig strings. Returns (alignments, any k-mer matched).
pub fn model_map(
    reference: &[Vec<u8>],
    dicts: &[BTreeMap<String, u8>],
    k: usize,
    rc: bool,
    ambig_mask: bool,
    repeat_mask: bool,
) -> (Vec<Vec<Vec<u8>>>, bool) {
    model_map_disp(reference, reference, dicts, k, rc, ambig_mask, repeat_mask)
}

/// As `model_map`, with the letters that are *displayed* as reference bases (`display`) kept apart from the
/// letters that define the reference k-mers (`reference`): used for reference letters outside A/C/G/T/N, whose
/// reading as a k-mer letter the tool does not define.
pub fn model_map_disp(
    reference: &[Vec<u8>],
    display: &[Vec<u8>],
    dicts: &[BTreeMap<String, u8>],
    k: usize,
    rc: bool,
    ambig_mask: bool,
    repeat_mask: bool,
) -> (Vec<Vec<Vec<u8>>>, bool) {
    let h = (k - 1) / 2;
    let mut refk: Vec<(usize, usize, String, bool)> = Vec::new();
    let mut count: BTreeMap<String, usize> = BTreeMap::new();
    for (ci, seq) in reference.iter().enumerate() {
        for (p, w) in windows(seq, k) {
            let (a, _, flag) = canon(&w, rc);
            *count.entry(a.clone()).or_insert(0) += 1;
            refk.push((ci, p, a, flag));
        }
    }
    let mut outs = Vec::new();
    let mut anymatch = false;
    for d in dicts {
        let mut out: Vec<Vec<u8>> = reference.iter().map(|s| vec![b'-'; s.len()]).collect();
        let matched: Vec<&(usize, usize, String, bool)> =
            refk.iter().filter(|(_, _, a, _)| d.get(a).map_or(false, |b| *b != b'-')).collect();
        if !matched.is_empty() {
            anymatch = true;
        }
        for (ci, p, _, _) in matched.iter().map(|x| (x.0, x.1, &x.2, x.3)) {
            for q in (p - h)..=(p + h) {
                out[ci][q] = display[ci][q].to_ascii_uppercase();
            }
        }
        for (ci, p, a, f) in matched.iter().map(|x| (x.0, x.1, &x.2, x.3)) {
            let mut b = d[a];
            if f {
                b = rc_code(b);
            }
            if ambig_mask && is_ambig(b) {
                b = b'N';
            }
            out[ci][p] = b;
        }
        if repeat_mask {
            for (ci, p, a, _) in &refk {
                if count[a] > 1 {
                    for q in (p - h)..=(p + h) {
                        if out[*ci][q] != b'-' {
                            out[*ci][q] = b'N';
                        }
                    }
                }
            }
        }
        outs.push(out);
    }
    (outs, anymatch)
}

/// VCF relation of C05: records (contig index, 1-based pos, REF, decoded per-sample alleles)
pub fn model_vcf(reference: &[Vec<u8>], alns: &[Vec<Vec<u8>>]) -> Vec<(usize, usize, u8, Vec<u8>)> {
    let mut recs = Vec::new();
    for (ci, seq) in reference.iter().enumerate() {
        for p in 0..seq.len() {
            let rb = seq[p].to_ascii_uppercase();
            let col: Vec<u8> = alns.iter().map(|a| a[ci][p]).collect();
            if col.iter().any(|c| *c != rb) {
                let refa = if matches!(rb, b'A' | b'C' | b'G' | b'T') { rb } else { b'N' };
                let dec: Vec<u8> = col
                    .iter()
                    .map(|c| {
                        if *c == b'-' {
                            b'.'
                        } else if matches!(*c, b'A' | b'C' | b'G' | b'T') {
                            *c
                        } else {
                            b'N'
                        }
                    })
                    .collect();
                recs.push((ci, p + 1, refa, dec));
            }
        }
    }
    recs
}

#[derive(Clone, Copy, PartialEq, Eq, Debug, Hash)]
pub enum QRule {
    None,
    Middle,
    Strict,
}

/// Read filter model (C12). files: two lists of (sequence, phred qualities).
pub fn read_filter_model(
    files: &[Vec<(Vec<u8>, Vec<u8>)>],
    k: usize,
    rc: bool,
    c: usize,
    q: u8,
    rule: QRule,
) -> BTreeMap<String, u8> {
    let h = (k - 1) / 2;
    let mut cnt: BTreeMap<Vec<u8>, (usize, Vec<u8>)> = BTreeMap::new();
    for reads in files {
        for (seq, qual) in reads {
            if seq.len() < k {
                continue;
            }
            let u = upper(seq);
            for i in 0..=(u.len() - k) {
                let w = &u[i..i + k];
                if w.iter().any(|c| !matches!(c, b'A' | b'C' | b'G' | b'T')) {
                    continue;
                }
                let qs = &qual[i..i + k];
                if rule == QRule::Middle && qs[h] < q {
                    continue;
                }
                if rule == QRule::Strict && qs.iter().any(|x| *x < q) {
                    continue;
                }
                let full = if rc {
                    let r = rc_str(w);
                    if r < w.to_vec() {
                        r
                    } else {
                        w.to_vec()
                    }
                } else {
                    w.to_vec()
                };
                let e = cnt.entry(full).or_insert((0, w.to_vec()));
                e.0 += 1;
            }
        }
    }
    let mut d: BTreeMap<String, u8> = BTreeMap::new();
    for (_, (n, w)) in cnt {
        if n >= usize::max(1, c) {
            let (a, ms, _) = canon(&w, rc);
            *d.entry(a).or_insert(0) |= ms;
        }
    }
    d.into_iter().map(|(a, m)| (a, code_of(m))).collect()
}

/// Multiplicity of every distinct split k-mer key over read files (C20)
pub fn key_multiplicities(files: &[Vec<Vec<u8>>], k: usize, rc: bool) -> BTreeMap<String, usize> {
    let mut m = BTreeMap::new();
    for reads in files {
        for seq in reads {
            for (_, w) in windows(seq, k) {
                let (a, _, _) = canon(&w, rc);
                *m.entry(a).or_insert(0) += 1;
            }
        }
    }
    m
}
