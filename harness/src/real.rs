//! Thin adapters that drive the real library (crate `ska` built from /repo's working
//! tree) and convert what it returns into the model's plain data.

use std::collections::BTreeMap;
use std::panic::{catch_unwind, AssertUnwindSafe};

use hashbrown::HashMap;
use num_traits::ToPrimitive as _;

use ska::cli::FilterType;
use ska::merge_ska_array::MergeSkaArray;
use ska::merge_ska_dict::{build_and_merge, InputFastx, MergeSkaDict};
use ska::ska_dict::bit_encoding::UInt;
use ska::ska_dict::SkaDict;
use ska::{QualFilter, QualOpts};

use crate::forkrun::panic_message;
use crate::mirror::{pack, unpack};
use crate::refmodel::{Filt, FilterSpec, QRule, Table};

pub trait Int: for<'a> UInt<'a> {
    fn from_u128(x: u128) -> Self;
    fn as_u128(self) -> u128;
    const WIDTH: u32;
}
impl Int for u64 {
    fn from_u128(x: u128) -> Self {
        x as u64
    }
    fn as_u128(self) -> u128 {
        self as u128
    }
    const WIDTH: u32 = 64;
}
impl Int for u128 {
    fn from_u128(x: u128) -> Self {
        x
    }
    fn as_u128(self) -> u128 {
        self
    }
    const WIDTH: u32 = 128;
}

pub fn key_of<I: Int>(x: I, k: usize) -> String {
    unpack(x.to_u128().unwrap(), k - 1)
}

pub fn int_of<I: Int>(key: &str) -> I {
    I::from_u128(pack(key.as_bytes()))
}

pub fn no_qual() -> QualOpts {
    QualOpts { min_count: 1, min_qual: 0, qual_filter: QualFilter::NoFilter }
}

pub fn catch<T, F: FnOnce() -> T>(f: F) -> Result<T, String> {
    catch_unwind(AssertUnwindSafe(f)).map_err(|e| panic_message(&e))
}

/// Build one sample from a FASTA file through `SkaDict::new` (what `ska build` does per sample)
pub fn build_dict<I: Int>(path: &str, k: usize, rc: bool) -> Result<BTreeMap<String, u8>, String> {
    catch(|| {
        let d = SkaDict::<I>::new(k, 0, (path, None), "s", rc, &no_qual(), None);
        d.kmers().iter().map(|(km, b)| (key_of(*km, k), *b)).collect()
    })
}

/// One sample given as a pair of sequence files (third column of a `-f` list): `SkaDict::new` with both names
pub fn build_dict_pair<I: Int>(p1: &str, p2: &str, k: usize, rc: bool) -> Result<BTreeMap<String, u8>, String> {
    catch(|| {
        let d = SkaDict::<I>::new(k, 0, (p1, Some(&p2.to_string())), "s", rc, &no_qual(), None);
        d.kmers().iter().map(|(km, b)| (key_of(*km, k), *b)).collect()
    })
}

pub fn qual_filter(rule: QRule) -> QualFilter {
    match rule {
        QRule::None => QualFilter::NoFilter,
        QRule::Middle => QualFilter::Middle,
        QRule::Strict => QualFilter::Strict,
    }
}

/// Build one sample from a FASTQ pair
pub fn build_dict_reads<I: Int>(
    p1: &str,
    p2: &str,
    k: usize,
    rc: bool,
    min_count: u16,
    min_qual: u8,
    rule: QRule,
) -> Result<BTreeMap<String, u8>, String> {
    catch(|| {
        let q = QualOpts { min_count, min_qual, qual_filter: qual_filter(rule) };
        let p2s = p2.to_string();
        let d = SkaDict::<I>::new(k, 0, (p1, Some(&p2s)), "s", rc, &q, None);
        d.kmers().iter().map(|(km, b)| (key_of(*km, k), *b)).collect()
    })
}

pub fn inputs(names: &[String], paths: &[String]) -> Vec<InputFastx> {
    names.iter().zip(paths).map(|(n, p)| (n.clone(), p.clone(), None)).collect()
}

/// `build_and_merge` + `MergeSkaArray::new` with threads = 1 (rayon-free path)
pub fn build_array<I: Int>(names: &[String], paths: &[String], k: usize, rc: bool) -> Result<MergeSkaArray<I>, String> {
    catch(|| {
        let d = build_and_merge::<I>(&inputs(names, paths), k, rc, &no_qual(), 1, None);
        MergeSkaArray::new(&d)
    })
}

/// Read the logical table out of a real array through its public API
pub fn array_table<I: Int>(a: &MergeSkaArray<I>) -> Result<Table, String> {
    let k = a.kmer_len();
    let mut rows = BTreeMap::new();
    for (km, bases) in a.iter() {
        if rows.insert(key_of(km, k), bases).is_some() {
            return Err("duplicate split k-mer in array".to_string());
        }
    }
    Ok(Table { k, rc: a.rc(), names: a.names().clone(), rows })
}

/// Forge a real array holding exactly this table (through `MergeSkaDict::build_from_array`)
pub fn forge_array<I: Int>(t: &Table) -> MergeSkaArray<I> {
    MergeSkaArray::new(&forge_dict::<I>(t))
}

pub fn forge_dict<I: Int>(t: &Table) -> MergeSkaDict<I> {
    let mut names = t.names.clone();
    let mut m: HashMap<I, Vec<u8>> = HashMap::new();
    for (key, row) in &t.rows {
        m.insert(int_of::<I>(key), row.clone());
    }
    let mut d = MergeSkaDict::<I>::new(t.k, t.names.len(), t.rc);
    d.build_from_array(&mut names, &mut m);
    d
}

pub fn filter_type(f: Filt) -> FilterType {
    match f {
        Filt::NoFilter => FilterType::NoFilter,
        Filt::NoConst => FilterType::NoConst,
        Filt::NoAmbig => FilterType::NoAmbig,
        Filt::NoAmbigOrConst => FilterType::NoAmbigOrConst,
    }
}

/// Parse FASTA text into (names, sequences)
pub fn parse_fasta(text: &[u8]) -> (Vec<String>, Vec<Vec<u8>>) {
    let mut names = Vec::new();
    let mut seqs: Vec<Vec<u8>> = Vec::new();
    for line in text.split(|c| *c == b'\n') {
        if line.is_empty() {
            continue;
        }
        if line[0] == b'>' {
            names.push(String::from_utf8_lossy(&line[1..]).to_string());
            seqs.push(Vec::new());
        } else if let Some(last) = seqs.last_mut() {
            last.extend_from_slice(line);
        }
    }
    (names, seqs)
}

/// Columns (sorted multiset) of an alignment given as per-sample sequences
pub fn columns_of(seqs: &[Vec<u8>]) -> Result<Vec<Vec<u8>>, String> {
    if seqs.is_empty() {
        return Ok(vec![]);
    }
    let l = seqs[0].len();
    if seqs.iter().any(|s| s.len() != l) {
        return Err("sequences of unequal length".to_string());
    }
    let mut cols: Vec<Vec<u8>> = (0..l).map(|i| seqs.iter().map(|s| s[i]).collect()).collect();
    cols.sort();
    Ok(cols)
}

/// `ska align` on an array: apply_filters (frequency as f64, exactly as the CLI) + write_fasta.
/// Returns (names, sequences).
pub fn align_array<I: Int>(a: &mut MergeSkaArray<I>, min_freq: f64, f: &FilterSpec) -> Result<(Vec<String>, Vec<Vec<u8>>), String> {
    catch(|| {
        ska::generic_modes::apply_filters(a, min_freq, f.ambig_missing, &filter_type(f.filt), f.mask, f.nogap);
        let mut out: Vec<u8> = Vec::new();
        a.write_fasta(&mut out).expect("write_fasta");
        parse_fasta(&out)
    })
}

use crate::forkrun::{in_child, ChildResult};
use ska::ska_ref::RefSka;

/// `RefSka::new` + `map` + `write_aln`/`write_vcf` in a forked child (they configure the global pool)
pub fn map_child<I: Int>(
    ref_path: &str,
    t: &Table,
    ambig_mask: bool,
    repeat_mask: bool,
    threads: usize,
    vcf: bool,
) -> ChildResult {
    in_child(
        || {
            let mut r = RefSka::<I>::new(t.k, ref_path, t.rc, ambig_mask, repeat_mask);
            let d = forge_dict::<I>(t);
            r.map(&d);
            let mut out: Vec<u8> = Vec::new();
            if vcf {
                r.write_vcf(&mut out, threads).expect("write_vcf");
            } else {
                r.write_aln(&mut out, threads).expect("write_aln");
            }
            out
        },
        20_000,
    )
}
