//! C02 — build is invariant to strand, record order, letter case, wrapping and gzip.
//! Metamorphic: real(transformed input) == real(original input); needs no model.

use serde_json::{json, Value};
use std::collections::BTreeMap;
use std::io::Write;

use super::buildcheck::*;
use super::c01::ALL_K;
use crate::enumerate::{permutations, repeat_free, strings};
use crate::explore::{Ctx, Meta, Report};
use crate::real;
use crate::refmodel::*;
use crate::scratch;

pub fn meta() -> Meta {
    Meta {
        id: "C02",
        level: "exploration",
        rule: "metamorphic relation on the real builder, enumerated completely per input family: F1 every record over {A,C,G,T,N} up to length 7 (k=5) with its reverse complement, every case mask (length<=6) and every line width; F2 the restart family L+N+R (k-mers on both sides of an N) against its reverse complement; F3 for all 30 k a repeat-free string of k+3 letters with N at every position: reverse complement, lower/alternating case, line widths 1,2,k,len-1, gzip (with and without .gz extension, and the records twice as a two-member gzip), CRLF line ends, header descriptions + blank lines + no final newline, an empty record in front, and the same records as FASTQ built with min-count 1 and no quality rule; F4 every ordered triple from a record pool with every subset reverse-complemented and every permutation; F4b four records with the same arms and every sequence of four middle bases (repeats included), sorted / reversed / reverse-complemented; F5 every permutation of 3 and 4 samples through build_and_merge (columns permute with the names), and reversed/rotated orders of 72 samples through `ska build --threads 8` (recursive parallel merge); F6 paired FASTQ read sets under the read filter (min-count 2, each quality rule, one base of quality 19/20 at every position of one read, k in {5,33}): reverse-complementing any read with its qualities, reversing the read order, swapping the files, moving a read between the files; F7 two alleles of one split k-mer each read exactly min-count times (3: every order of the six reads; 5: rotations of the sorted order and the alternating orders), the reads split over the two files at four points. Non-trivial = the original input has at least one split k-mer and the transformed file differs from the original.".into(),
        assumptions: vec!["a file without split k-mers may be refused; refusal is treated as the empty dictionary on both sides".into()],
        exhaustive_when_uncapped: true,
    }
}

fn dict_or_empty(r: Result<BTreeMap<String, u8>, String>) -> BTreeMap<String, u8> {
    r.unwrap_or_default()
}

fn wrap(records: &[Vec<u8>], width: usize) -> Vec<u8> {
    let mut out = Vec::new();
    for (i, r) in records.iter().enumerate() {
        out.extend_from_slice(format!(">r{i}\n").as_bytes());
        for chunk in r.chunks(width.max(1)) {
            out.extend_from_slice(chunk);
            out.push(b'\n');
        }
    }
    out
}

/// the same records in other legal FASTA dress: 0 = CRLF line ends, 1 = header descriptions + blank line after each
/// record + no final newline, 2 = an empty record in front, 3 = CRLF and wrapped
fn dress(records: &[Vec<u8>], how: usize, width: usize) -> Vec<u8> {
    let mut out = Vec::new();
    if how == 2 {
        out.extend_from_slice(b">empty\n");
    }
    let eol: &[u8] = if how == 0 || how == 3 { b"\r\n" } else { b"\n" };
    for (i, r) in records.iter().enumerate() {
        if how == 1 {
            out.extend_from_slice(format!(">r{i} sample={i}\tlen={} | x", r.len()).as_bytes());
        } else {
            out.extend_from_slice(format!(">r{i}").as_bytes());
        }
        out.extend_from_slice(eol);
        let w = if how == 3 { width.max(1) } else { r.len().max(1) };
        for chunk in r.chunks(w) {
            out.extend_from_slice(chunk);
            out.extend_from_slice(eol);
        }
        if how == 1 {
            out.push(b'\n');
        }
    }
    if how == 1 {
        while out.last() == Some(&b'\n') {
            out.pop();
        }
    }
    out
}

/// the records as FASTQ with a uniform quality (built with min-count 1 and no quality rule by the harness)
fn as_fastq(records: &[Vec<u8>]) -> Vec<u8> {
    let mut out = Vec::new();
    for (i, r) in records.iter().enumerate() {
        out.extend_from_slice(format!("@r{i}\n").as_bytes());
        out.extend_from_slice(r);
        out.extend_from_slice(b"\n+\n");
        out.extend(std::iter::repeat(b'I').take(r.len()));
        out.push(b'\n');
    }
    out
}

fn gz(data: &[u8]) -> Vec<u8> {
    let mut e = flate2::write::GzEncoder::new(Vec::new(), flate2::Compression::default());
    e.write_all(data).unwrap();
    e.finish().unwrap()
}

struct Chk<'a> {
    rep: &'a mut Report,
    k: usize,
    rc: bool,
    wide: bool,
}

impl Chk<'_> {
    fn base(&self, records: &[Vec<u8>]) -> BTreeMap<String, u8> {
        dict_or_empty(real_build(records, self.k, self.rc, self.wide, "c02a.fa"))
    }
    fn relate(&mut self, orig: &BTreeMap<String, u8>, records: &[Vec<u8>], what: &str, transformed_file: &[u8], fname: &str) {
        self.rep.evaluations += 1;
        let p = scratch::write(fname, transformed_file);
        let got = dict_or_empty(real_build_file(&p, self.k, self.rc, self.wide));
        if !orig.is_empty() {
            self.rep.nontrivial += 1;
            if self.rep.evaluations % 16 == 0 {
                self.rep.outcome(orig);
            }
        }
        if &got != orig {
            let recs: Vec<String> = records.iter().map(|r| String::from_utf8_lossy(r).to_string()).collect();
            let tf = if transformed_file.len() < 400 && transformed_file.is_ascii() { String::from_utf8_lossy(transformed_file).to_string() } else { format!("<{} bytes>", transformed_file.len()) };
            self.rep.violate(
                format!("{what} k={} rc={} bits={} records={}", self.k, self.rc, if self.wide { 128 } else { 64 }, recs.join("|")),
                format!("{what}: dictionary changes from {} to {}", show(orig), show(&got)),
                json!({"k":self.k,"rc":self.rc,"wide":self.wide,"records":recs,"transform":what,"transformed_file":tf}),
            );
        }
    }
    fn relate_records(&mut self, orig: &BTreeMap<String, u8>, records: &[Vec<u8>], what: &str, transformed: &[Vec<u8>]) {
        self.relate(orig, records, what, &scratch::fasta(transformed), "c02b.fa");
    }
}

pub fn replay(case: &Value) -> Result<Option<String>, String> {
    // re-run original records against the stored transformed file text (when it was recorded verbatim)
    let k = case["k"].as_u64().ok_or("k")? as usize;
    let rc = case["rc"].as_bool().ok_or("rc")?;
    let wide = case["wide"].as_bool().ok_or("wide")?;
    let records: Vec<Vec<u8>> = case["records"].as_array().ok_or("records")?.iter().map(|r| r.as_str().unwrap().as_bytes().to_vec()).collect();
    let tf = case["transformed_file"].as_str().ok_or("transformed_file")?;
    if tf.starts_with('<') {
        return Err("transformed file was not recorded verbatim; rerun the check".into());
    }
    let orig = dict_or_empty(real_build(&records, k, rc, wide, "c02a.fa"));
    let p = scratch::write("c02b.fa", tf.as_bytes());
    let got = dict_or_empty(real_build_file(&p, k, rc, wide));
    Ok(if got != orig { Some(format!("dictionary changes from {} to {}", show(&orig), show(&got))) } else { None })
}

pub fn run(ctx: &Ctx, rep: &mut Report) {
    let thorough = ctx.tier.thorough();
    let mut idx = 0u64;
    let mut capped = false;

    // F1
    {
        let k = 5usize;
        let maxlen = if thorough { 8 } else { 7 };
        for len in k..=maxlen {
            strings(b"ACGTN", len, |s| {
                idx += 1;
                if ctx.mine(idx) {
                    let recs = [s.to_vec()];
                    for rc in [true, false] {
                        let mut c = Chk { rep, k, rc, wide: false };
                        let orig = c.base(&recs);
                        if rc {
                            c.relate_records(&orig, &recs, "reverse-complement record", &[rc_str_n(s)]);
                        }
                        if len <= 6 || thorough {
                            for mask in 1u32..(1 << len) {
                                let t: Vec<u8> = s.iter().enumerate().map(|(i, ch)| if mask & (1 << i) != 0 { ch.to_ascii_lowercase() } else { *ch }).collect();
                                c.relate_records(&orig, &recs, "case mask", &[t]);
                            }
                        } else {
                            let t: Vec<u8> = s.iter().map(|ch| ch.to_ascii_lowercase()).collect();
                            c.relate_records(&orig, &recs, "case mask", &[t]);
                        }
                        if rc {
                            for w in 1..len {
                                c.relate(&orig, &recs, "line width", &wrap(&recs, w), "c02b.fa");
                            }
                        }
                    }
                }
                if idx % 512 == 0 && ctx.expired() {
                    capped = true;
                    return false;
                }
                true
            });
            if capped {
                break;
            }
            rep.completed.push(format!("F1 k=5 length {len}"));
        }
    }

    // F2 restart family
    if !capped {
        let k = 5usize;
        let mut reps: Vec<Vec<u8>> = Vec::new();
        for m in *b"ACGT" {
            reps.push(vec![b'A', b'C', m, b'G', b'T']);
            reps.push(vec![b'T', b'G', m, b'C', b'A']);
            reps.push(vec![b'A', b'A', m, b'C', b'G']);
            reps.push(vec![b'G', b'T', m, b'T', b'A']);
        }
        let mut all_r: Vec<Vec<u8>> = Vec::new();
        strings(b"ACGT", k + 1, |w| {
            all_r.push(w.to_vec());
            true
        });
        let mut n = 0u64;
        'f2: for l in &reps {
            for r in &all_r {
                for (a, b) in [(l, r), (r, l)] {
                    idx += 1;
                    n += 1;
                    if !ctx.mine(idx) {
                        continue;
                    }
                    let s = [a.as_slice(), b"N".as_slice(), b.as_slice()].concat();
                    let recs = [s.clone()];
                    let mut c = Chk { rep, k, rc: true, wide: false };
                    let orig = c.base(&recs);
                    c.relate_records(&orig, &recs, "reverse-complement record", &[rc_str_n(&s)]);
                    c.rep.corner("restart_family");
                }
                if n % 4096 == 0 && ctx.expired() {
                    capped = true;
                    break 'f2;
                }
            }
        }
        if !capped {
            rep.completed.push("F2 restart family k=5".into());
        }
    }

    // F3 every k
    if !capped {
        for k in ALL_K {
            let base = repeat_free(k + 3, k, 0, ctx.seed + 5);
            let mut inputs: Vec<Vec<u8>> = vec![base.clone()];
            for p in 0..base.len() {
                let mut s = base.clone();
                s[p] = b'N';
                inputs.push(s);
            }
            for s in inputs {
                idx += 1;
                if !ctx.mine(idx) {
                    continue;
                }
                let recs = [s.clone()];
                let wides: &[bool] = if k <= 31 { &[false, true] } else { &[true] };
                for wide in wides {
                    for rc in [true, false] {
                        let mut c = Chk { rep, k, rc, wide: *wide };
                        let orig = c.base(&recs);
                        if rc {
                            c.relate_records(&orig, &recs, "reverse-complement record", &[rc_str_n(&s)]);
                        }
                        c.relate_records(&orig, &recs, "case mask", &[s.iter().map(|ch| ch.to_ascii_lowercase()).collect()]);
                        c.relate_records(&orig, &recs, "case mask", &[s.iter().enumerate().map(|(i, ch)| if i % 2 == 1 { ch.to_ascii_lowercase() } else { *ch }).collect()]);
                        for w in [1, 2, k, s.len() - 1] {
                            c.relate(&orig, &recs, "line width", &wrap(&recs, w), "c02b.fa");
                        }
                        c.relate(&orig, &recs, "gzip", &gz(&scratch::fasta(&recs)), "c02b.fa.gz");
                        c.relate(&orig, &recs, "gzip without extension", &gz(&scratch::fasta(&recs)), "c02b_plain");
                        c.relate(&orig, &[recs.clone(), recs.clone()].concat(), "the records twice, gzip in two members", &scratch::gz_two_members(&scratch::fasta(&[recs.clone(), recs.clone()].concat()), 2), "c02c.fa.gz");
                        for how in 0..4 {
                            c.relate(&orig, &recs, ["CRLF line ends", "header descriptions, blank lines, no final newline", "empty record in front", "CRLF and wrapped"][how], &dress(&recs, how, k - 2), "c02b.fa");
                        }
                        if !s.is_empty() {
                            c.relate(&orig, &recs, "same records as FASTQ (min-count 1, no quality rule)", &as_fastq(&recs), "c02b.fastq");
                        }
                        c.rep.corner("every_k");
                    }
                }
            }
            if ctx.expired() {
                capped = true;
                break;
            }
            rep.completed.push(format!("F3 k={k}"));
        }
    }

    // F4 record triples: subsets reverse-complemented, permutations
    if !capped {
        let k = 5usize;
        let pool: Vec<&[u8]> = vec![b"ACGAT", b"ACGATC", b"ACTAT", b"NACGAT", b"ACGANCTTGA", b"atcgt", b"ACAGT", b"ATCGTA", b"GG", b"ACGTACGTA"];
        let perms = permutations(3);
        'f4: for a in &pool {
            for b in &pool {
                for c3 in &pool {
                    idx += 1;
                    if !ctx.mine(idx) {
                        continue;
                    }
                    let recs = vec![a.to_vec(), b.to_vec(), c3.to_vec()];
                    for rc in [true, false] {
                        let mut c = Chk { rep, k, rc, wide: false };
                        let orig = c.base(&recs);
                        if rc {
                            for mask in 1u32..8 {
                                let t: Vec<Vec<u8>> = recs.iter().enumerate().map(|(i, r)| if mask & (1 << i) != 0 { rc_str_n(r) } else { r.clone() }).collect();
                                c.relate_records(&orig, &recs, "reverse-complement subset of records", &t);
                            }
                        }
                        for p in &perms[1..] {
                            let t: Vec<Vec<u8>> = p.iter().map(|i| recs[*i].clone()).collect();
                            c.relate_records(&orig, &recs, "permute records", &t);
                        }
                        c.relate(&orig, &recs, "gzip", &gz(&scratch::fasta(&recs)), "c02b.fa.gz");
                        for how in [1usize, 3] {
                            c.relate(&orig, &recs, ["", "header descriptions, blank lines, no final newline", "", "CRLF and wrapped"][how], &dress(&recs, how, 3), "c02b.fa");
                        }
                    }
                    rep.corner("record_triples");
                    if ctx.expired() {
                        capped = true;
                        break 'f4;
                    }
                }
            }
        }
        if !capped {
            rep.completed.push("F4 record triples".into());
        }
    }

    // F4b four copies of the same arms: every sequence of four middle bases (repeats included), as four records in
    // that order, against the same records sorted; both strand modes, each record also reverse-complemented
    if !capped {
        for k in [5usize, 31, 33] {
            let h = (k - 1) / 2;
            let arms = repeat_free(k + 2, k, 0, ctx.seed + 66);
            strings(b"ACGT", 4, |mids| {
                idx += 1;
                if !ctx.mine(idx) {
                    return true;
                }
                let rec = |m: u8, i: usize| -> Vec<u8> {
                    let mut r = arms[..k].to_vec();
                    r[h] = m;
                    // a different trailing letter per copy keeps the records distinct
                    r.push(b"ACGT"[i % 4]);
                    r
                };
                let recs: Vec<Vec<u8>> = mids.iter().enumerate().map(|(i, m)| rec(*m, i)).collect();
                let mut order: Vec<usize> = (0..4).collect();
                order.sort_by_key(|i| mids[*i]);
                let sorted: Vec<Vec<u8>> = order.iter().map(|i| recs[*i].clone()).collect();
                let reversed: Vec<Vec<u8>> = recs.iter().rev().cloned().collect();
                for rc in [true, false] {
                    let mut c = Chk { rep, k, rc, wide: k > 31 };
                    let orig = c.base(&recs);
                    c.relate_records(&orig, &recs, "permute records (sorted by middle base)", &sorted);
                    c.relate_records(&orig, &recs, "permute records (reversed)", &reversed);
                    if rc {
                        c.relate_records(&orig, &recs, "reverse-complement every record", &recs.iter().map(|r| rc_str_n(r)).collect::<Vec<_>>());
                        c.relate_records(&orig, &recs, "reverse-complement the last record", &[recs[..3].to_vec(), vec![rc_str_n(&recs[3])]].concat());
                    }
                }
                rep.corner("four_copies_of_the_same_arms");
                true
            });
        }
        rep.completed.push("F4b four copies".into());
    }

    // F6 reads: the relations under the read filter (min-count 2, each quality rule, threshold 20): one base of
    // quality 19 or 20 at every position of one read; reverse-complementing any read (qualities reversed with it),
    // reversing the read order, swapping the two files, moving a read to the other file
    if !capped {
        for k in [5usize, 33] {
            let g = repeat_free(k + 3, k, 0, ctx.seed + 77);
            let reads0: Vec<Vec<u8>> = vec![g[..k + 2].to_vec(), g[..k + 1].to_vec(), g[1..].to_vec(), rc_str(&g[1..k + 2])];
            for pos in 0..k + 2 {
                for lowq in [19u8, 20] {
                    idx += 1;
                    if !ctx.mine(idx) {
                        continue;
                    }
                    type Rd = (Vec<u8>, Vec<u8>);
                    let mut reads: Vec<Rd> = reads0.iter().map(|r| (r.clone(), vec![30u8; r.len()])).collect();
                    reads[0].1[pos] = lowq;
                    let fq = |v: &[Rd]| -> Vec<u8> {
                        let mut out = Vec::new();
                        for (i, (s, q)) in v.iter().enumerate() {
                            out.extend_from_slice(format!("@r{i}\n").as_bytes());
                            out.extend_from_slice(s);
                            out.extend_from_slice(b"\n+\n");
                            out.extend(q.iter().map(|x| x + 33));
                            out.push(b'\n');
                        }
                        if v.is_empty() {
                            out.extend_from_slice(b"@empty\nA\n+\nI\n");
                        }
                        out
                    };
                    let rcr = |r: &Rd| -> Rd { (rc_str(&r.0), r.1.iter().rev().copied().collect()) };
                    for rule in [QRule::Middle, QRule::Strict, QRule::None] {
                        for rc in [true, false] {
                            let build = |f1: &[Rd], f2: &[Rd]| -> BTreeMap<String, u8> {
                                let p1 = scratch::write("c02_r1.fastq", &fq(f1));
                                let p2 = scratch::write("c02_r2.fastq", &fq(f2));
                                dict_or_empty(if k <= 31 { real::build_dict_reads::<u64>(&p1, &p2, k, rc, 2, 20, rule) } else { real::build_dict_reads::<u128>(&p1, &p2, k, rc, 2, 20, rule) })
                            };
                            let (f1, f2) = (reads[..2].to_vec(), reads[2..].to_vec());
                            let orig = build(&f1, &f2);
                            let mut variants: Vec<(String, Vec<Rd>, Vec<Rd>)> = Vec::new();
                            if rc {
                                for i in 0..4 {
                                    let mut all = reads.clone();
                                    all[i] = rcr(&all[i]);
                                    variants.push((format!("reverse-complement read {i}"), all[..2].to_vec(), all[2..].to_vec()));
                                }
                            }
                            variants.push(("reverse the read order in both files".into(), f1.iter().rev().cloned().collect(), f2.iter().rev().cloned().collect()));
                            variants.push(("swap the two files".into(), f2.clone(), f1.clone()));
                            variants.push(("move the first read to the second file".into(), f1[1..].to_vec(), [f2.clone(), f1[..1].to_vec()].concat()));
                            variants.push(("all reads in the first file, low-quality read last".into(), [f1[1..].to_vec(), f2.clone(), f1[..1].to_vec()].concat(), vec![]));
                            for (what, a, b) in variants {
                                rep.evaluations += 1;
                                if !orig.is_empty() {
                                    rep.nontrivial += 1;
                                }
                                let got = build(&a, &b);
                                if got != orig {
                                    rep.violate(
                                        format!("F6 k={k} rc={rc} pos={pos} q={lowq} {rule:?} {what}"),
                                        format!("reads, min-count 2, {rule:?} rule, quality {lowq} at position {pos} of read 0: {what}: dictionary changes from {} to {}", show(&orig), show(&got)),
                                        json!({"family": "F6", "k": k, "rc": rc, "pos": pos, "lowq": lowq, "rule": format!("{rule:?}"), "transform": what}),
                                    );
                                }
                            }
                            rep.corner("read_sets_under_the_quality_filter");
                        }
                    }
                }
            }
        }
        rep.completed.push("F6 reads".into());
    }
    // F7 reads: two alleles of one split k-mer, each seen exactly min-count times (3, and the default 5): every order of
    // the multiset of reads (min-count 3: all 20; min-count 5: sorted, reversed, alternating, and every rotation of
    // the sorted order) split over the two files at every point gives the same dictionary
    if !capped {
        for k in [5usize, 33] {
            let g = repeat_free(k + 2, k, 0, ctx.seed + 78);
            let mut alt = g.clone();
            alt[(k - 1) / 2 + 1] = comp(alt[(k - 1) / 2 + 1]);
            for c in [3usize, 5] {
                idx += 1;
                if !ctx.mine(idx) {
                    continue;
                }
                let n = 2 * c;
                let mut orders: Vec<Vec<bool>> = Vec::new();
                if c == 3 {
                    for m in 0u32..(1 << n) {
                        if m.count_ones() as usize == c {
                            orders.push((0..n).map(|i| m >> i & 1 == 1).collect());
                        }
                    }
                } else {
                    let sorted: Vec<bool> = (0..n).map(|i| i >= c).collect();
                    for r in 0..n {
                        let mut v = sorted.clone();
                        v.rotate_left(r);
                        orders.push(v);
                    }
                    orders.push((0..n).map(|i| i % 2 == 0).collect());
                    orders.push((0..n).map(|i| i % 2 == 1).collect());
                }
                for rc in [true, false] {
                    let fq = |v: &[bool]| -> Vec<u8> {
                        let mut out = Vec::new();
                        for (i, second) in v.iter().enumerate() {
                            let s0 = if *second { &alt } else { &g };
                            let s1 = if rc && i % 3 == 2 { rc_str(s0) } else { s0.clone() };
                            out.extend_from_slice(format!("@r{i}\n").as_bytes());
                            out.extend_from_slice(&s1);
                            out.extend_from_slice(b"\n+\n");
                            out.extend(std::iter::repeat(b'I').take(s1.len()));
                            out.push(b'\n');
                        }
                        if v.is_empty() {
                            out.extend_from_slice(b"@empty\nA\n+\nI\n");
                        }
                        out
                    };
                    let build = |o: &[bool], cut: usize| -> BTreeMap<String, u8> {
                        let p1 = scratch::write("c02_r1.fastq", &fq(&o[..cut]));
                        let p2 = scratch::write("c02_r2.fastq", &fq(&o[cut..]));
                        dict_or_empty(if k <= 31 { real::build_dict_reads::<u64>(&p1, &p2, k, rc, c as u16, 20, QRule::Strict) } else { real::build_dict_reads::<u128>(&p1, &p2, k, rc, c as u16, 20, QRule::Strict) })
                    };
                    let orig = build(&orders[0], c);
                    for o in &orders {
                        for cut in [c, 1, n - 1, n] {
                            rep.evaluations += 1;
                            if !orig.is_empty() {
                                rep.nontrivial += 1;
                            }
                            let got = build(o, cut);
                            if got != orig {
                                let os: String = o.iter().map(|b| if *b { 'b' } else { 'a' }).collect();
                                rep.violate(
                                    format!("F7 k={k} rc={rc} c={c} order={os} cut={cut}"),
                                    format!("reads, two alleles a/b of one split k-mer seen {c} times each, min-count {c}: read order {os} (first {cut} reads in file 1) gives {}, order {} gives {}", show(&got), orders[0].iter().map(|b| if *b { 'b' } else { 'a' }).collect::<String>(), show(&orig)),
                                    json!({"family": "F7", "k": k, "rc": rc, "min_count": c, "order": os, "cut": cut}),
                                );
                            }
                        }
                    }
                    rep.corner("two_alleles_each_at_the_count");
                }
            }
        }
        rep.completed.push("F7 reads, two alleles at the count".into());
    }

    // F5 sample permutations
    if !capped {
        for k in [5usize, 31, 33] {
            let g = repeat_free(k + 8, k, 0, ctx.seed + 9);
            let mut m1 = g.clone();
            m1[(k - 1) / 2 + 2] = comp(m1[(k - 1) / 2 + 2]);
            let samples: Vec<Vec<Vec<u8>>> = vec![vec![g.clone()], vec![m1.clone()], vec![g[..k + 2].to_vec(), rc_str(&m1[3..])], vec![rc_str(&g)[1..].to_vec()]];
            for n in [3usize, 4] {
                let names: Vec<String> = (0..n).map(|i| format!("s{i}")).collect();
                let paths: Vec<String> = (0..n).map(|i| scratch::write(&format!("c02s{i}.fa"), &scratch::fasta(&samples[i]))).collect();
                for rc in [true, false] {
                    let orig = table_of(&names, &paths, k, rc);
                    for p in permutations(n) {
                        idx += 1;
                        if !ctx.mine(idx) {
                            continue;
                        }
                        rep.evaluations += 1;
                        rep.nontrivial += 1;
                        let pn: Vec<String> = p.iter().map(|i| names[*i].clone()).collect();
                        let pp: Vec<String> = p.iter().map(|i| paths[*i].clone()).collect();
                        let got = table_of(&pn, &pp, k, rc);
                        let want = orig.clone().map(|t| Table {
                            k,
                            rc,
                            names: pn.clone(),
                            rows: t.rows.iter().map(|(a, r)| (a.clone(), p.iter().map(|i| r[*i]).collect())).collect(),
                        });
                        rep.corner("sample_permutation");
                        if got != want {
                            rep.violate(format!("sample permutation {p:?} k={k} rc={rc} n={n}"), "permuting input samples does not just permute the columns".into(), json!({"part":"sample-permutation","k":k,"rc":rc,"perm":p}));
                        }
                    }
                }
            }
        }
        // the same relation through the CLI with enough samples and threads for the recursive parallel merge
        // (72 samples, --threads 8: split depth 3): reversed and rotated sample order
        idx += 1;
        if ctx.mine(idx) {
            let k = 15usize;
            let n = 72usize;
            let g = repeat_free(8 * k, k, 0, ctx.seed + 10);
            let dir = scratch::path("c02cli");
            let _ = std::fs::create_dir_all(&dir);
            for i in 0..n {
                let mut s = g.clone();
                let p = k + (i * 5) % (6 * k);
                s[p] = comp(s[p]);
                if i % 7 == 3 {
                    s = rc_str(&s);
                }
                std::fs::write(format!("{dir}/m{i}.fa"), scratch::fasta(&[s])).unwrap();
            }
            let build = |order: &[usize], out: &str, threads: &str| -> Result<Table, String> {
                let mut a: Vec<String> = vec!["build".into(), "-k".into(), k.to_string(), "-o".into(), out.into(), "--threads".into(), threads.into()];
                a.extend(order.iter().map(|i| format!("m{i}.fa")));
                let av: Vec<&str> = a.iter().map(|x| x.as_str()).collect();
                let o = crate::cli::run(&av, &dir, None);
                if o.code != 0 {
                    return Err(format!("ska build exit {}", o.code));
                }
                crate::mirror::FileState::read(&format!("{dir}/{out}.skf")).map(|s| s.table)
            };
            let ident: Vec<usize> = (0..n).collect();
            let base = build(&ident, "p0", "1");
            for (what, order) in [("identity, 8 threads", ident.clone()), ("reversed, 8 threads", ident.iter().rev().copied().collect::<Vec<_>>()), ("rotated by 19, 8 threads", ident.iter().map(|i| (i + 19) % n).collect())] {
                rep.evaluations += 1;
                rep.nontrivial += 1;
                rep.corner("sample_permutation_cli_72_samples_8_threads");
                let got = build(&order, "p1", "8");
                let want = base.clone().map(|t| Table {
                    k,
                    rc: true,
                    names: order.iter().map(|i| t.names[*i].clone()).collect(),
                    rows: t.rows.iter().map(|(a, r)| (a.clone(), order.iter().map(|i| r[*i]).collect())).collect(),
                });
                if got != want || got.is_err() {
                    rep.violate(format!("cli sample permutation {what}"), format!("ska build of 72 samples ({what}) is not the column permutation of the single-threaded build in input order"), json!({"part": "sample-permutation-cli", "order": what}));
                }
            }
        }
        rep.completed.push("F5 sample permutations".into());
    }
    rep.sample(json!({"family":"F2","record":"ACAGTNAAACGT","transform":"reverse-complement record","k":5}));
    rep.sample(json!({"family":"F4","records":["ACGAT","NACGAT","atcgt"],"transform":"permute records / reverse-complement subset / gzip","k":5}));
    rep.capped = capped;
}

fn table_of(names: &[String], paths: &[String], k: usize, rc: bool) -> Result<Table, String> {
    if k <= 31 {
        real::array_table(&real::build_array::<u64>(names, paths, k, rc)?)
    } else {
        real::array_table(&real::build_array::<u128>(names, paths, k, rc)?)
    }
}
