//! C03 — reference-free alignment recovers exactly the true SNP columns.

use serde_json::{json, Value};

use super::c01::ALL_K;
use crate::cli;
use crate::enumerate::repeat_free;
use crate::explore::{Ctx, Meta, Report};
use crate::real;
use crate::refmodel::*;
use crate::scratch;

pub fn meta() -> Meta {
    Meta {
        id: "C03",
        level: "exploration",
        rule: "planted-SNP sample sets through the real build_and_merge + MergeSkaArray::new + apply_filters(min_freq 1, no-const) + write_fasta (what `ska align --min-freq 1` does; plus sites whose two arms are homopolymers of each letter; with both strands in use, and additionally in single-strand mode whenever no contig of the case is reverse-complemented): ancestors = members of a deterministic family of sequences of length 6k whose split k-mers are unique on both strands; k in {5,7,9,15,31,33,63} (thorough: all 30); site sets = all subsets of size 1..2 (size 3 at k=5,7; thorough: everywhere) of a position grid with spacing exactly h+1 that starts exactly h from the contig start and ends exactly h from its end (h=(k-1)/2); allele assignments = every assignment of {ancestral, alt1, alt2} to n=2,3,4 samples with at least two alleles, and the single-carrier / half / all-but-one biallelic patterns for n=10; sample orientations (all forward, all reverse-complemented, alternating, one flipped); contig layout one contig, cut in two, or with an extra contig of length exactly k that carries a site at its centre. Cases whose premise fails (a site closer than h to a contig end after the cut, accidental k-mer collisions detected by the model) are counted as trivial and not judged. Oracle: exactly one column per site, the multiset of columns modulo whole-column complement equals the planted one, equal lengths, names in input order. Non-trivial = premise holds.".into(),
        assumptions: vec!["premise re-checked by the model on the derived samples (DESIGN §4 rule 1)".into()],
        exhaustive_when_uncapped: true,
    }
}

fn canon_col(c: &[u8]) -> Vec<u8> {
    let comp_c: Vec<u8> = c.iter().map(|b| if set_of(*b).is_some() { rc_code(*b) } else { *b }).collect();
    if comp_c < c.to_vec() {
        comp_c
    } else {
        c.to_vec()
    }
}

pub struct Case {
    pub k: usize,
    pub ancestor: Vec<u8>,
    pub sites: Vec<usize>,
    /// per site, per sample allele index 0 (ancestral), 1, 2
    pub alleles: Vec<Vec<u8>>,
    /// per sample: reverse-complement the whole sample
    pub flip: Vec<bool>,
    /// cut position (0 = one contig)
    pub cut: usize,
}

fn allele_base(anc: u8, a: u8) -> u8 {
    match a {
        0 => anc,
        1 => comp(anc),
        _ => match anc {
            b'A' | b'T' => b'C',
            _ => b'A',
        },
    }
}

impl Case {
    pub fn n(&self) -> usize {
        self.flip.len()
    }
    pub fn samples(&self) -> Vec<Vec<Vec<u8>>> {
        (0..self.n())
            .map(|i| {
                let mut s = self.ancestor.clone();
                for (si, p) in self.sites.iter().enumerate() {
                    s[*p] = allele_base(self.ancestor[*p], self.alleles[si][i]);
                }
                // two contigs: a record too short to hold a k-mer sits between them in every second sample
                let mut contigs: Vec<Vec<u8>> = if self.cut == 0 {
                    vec![s]
                } else if i % 2 == 0 {
                    vec![s[..self.cut].to_vec(), self.ancestor[..(self.k - 1) / 2].to_vec(), s[self.cut..].to_vec()]
                } else {
                    vec![s[..self.cut].to_vec(), s[self.cut..].to_vec()]
                };
                if self.flip[i] {
                    contigs = contigs.iter().map(|c| rc_str(c)).collect();
                }
                contigs
            })
            .collect()
    }
    pub fn planted(&self) -> Vec<Vec<u8>> {
        let mut cols: Vec<Vec<u8>> = self.sites.iter().enumerate().map(|(si, p)| canon_col(&(0..self.n()).map(|i| allele_base(self.ancestor[*p], self.alleles[si][i])).collect::<Vec<u8>>())).collect();
        cols.sort();
        cols
    }
    pub fn premise(&self) -> bool {
        let h = (self.k - 1) / 2;
        let l = self.ancestor.len();
        for p in &self.sites {
            let (start, end) = if self.cut == 0 { (0, l) } else if *p < self.cut { (0, self.cut) } else { (self.cut, l) };
            if p - start < h || end - 1 - p < h {
                return false;
            }
        }
        for (i, p) in self.sites.iter().enumerate() {
            for q in &self.sites[i + 1..] {
                if q.abs_diff(*p) <= h {
                    return false;
                }
            }
        }
        true
    }
    pub fn json(&self) -> Value {
        json!({"k": self.k, "ancestor": String::from_utf8_lossy(&self.ancestor), "sites": self.sites, "alleles": self.alleles, "flip": self.flip, "cut": self.cut})
    }
    pub fn from_json(v: &Value) -> Option<Case> {
        Some(Case {
            k: v["k"].as_u64()? as usize,
            ancestor: v["ancestor"].as_str()?.as_bytes().to_vec(),
            sites: v["sites"].as_array()?.iter().map(|x| x.as_u64().unwrap() as usize).collect(),
            alleles: v["alleles"].as_array()?.iter().map(|a| a.as_array().unwrap().iter().map(|x| x.as_u64().unwrap() as u8).collect()).collect(),
            flip: v["flip"].as_array()?.iter().map(|x| x.as_bool().unwrap()).collect(),
            cut: v["cut"].as_u64()? as usize,
        })
    }
}

/// Ok(true) = judged and fine, Ok(false) = trivial (premise not met), Err = violation
pub fn check(c: &Case) -> Result<bool, String> {
    if !c.premise() {
        return Ok(false);
    }
    let n = c.n();
    let names: Vec<String> = crate::samples::odd_names(n);
    let samples = c.samples();
    let planted = c.planted();
    let f = FilterSpec { thr: n, filt: Filt::NoConst, ambig_missing: false, mask: false, nogap: false };
    let paths: Vec<String> = (0..n).map(|i| scratch::write(&format!("c03_{i}.fa"), &scratch::fasta(&samples[i]))).collect();
    // both strands in use; and, when every contig is in the ancestor's orientation, also the single-strand mode
    let modes: &[bool] = if c.flip.iter().all(|x| !*x) { &[true, false] } else { &[true] };
    for rc in modes {
        // premise on the derived samples: the model's own alignment must be the planted one
        let t = Table::from_samples(c.k, *rc, &names, &samples);
        let mut model_cols: Vec<Vec<u8>> = t.filter(&f).columns().iter().map(|x| canon_col(x)).collect();
        model_cols.sort();
        if model_cols != planted {
            if *rc {
                return Ok(false);
            }
            continue;
        }
        let res = if c.k <= 31 {
            real::build_array::<u64>(&names, &paths, c.k, *rc).and_then(|mut a| real::align_array(&mut a, 1.0, &f))
        } else {
            real::build_array::<u128>(&names, &paths, c.k, *rc).and_then(|mut a| real::align_array(&mut a, 1.0, &f))
        };
        let mode = if *rc { "" } else { "single-strand build: " };
        let (got_names, seqs) = res.map_err(|e| format!("{mode}build/align failed: {}", e.chars().take(120).collect::<String>()))?;
        if got_names != names {
            return Err(format!("{mode}sample names {got_names:?}, expected input order {names:?}"));
        }
        let cols = real::columns_of(&seqs)?;
        let mut got: Vec<Vec<u8>> = cols.iter().map(|x| canon_col(x)).collect();
        got.sort();
        if got != planted {
            let show = |v: &Vec<Vec<u8>>| v.iter().map(|x| String::from_utf8_lossy(x).to_string()).collect::<Vec<_>>().join(" ");
            return Err(format!("{mode}alignment columns [{}] but the planted SNPs are [{}]", show(&got), show(&planted)));
        }
    }
    Ok(true)
}

pub fn replay(v: &Value) -> Result<Option<String>, String> {
    if v.get("cli").is_some() {
        return Err("CLI sub-family: rerun ./check C03".into());
    }
    let c = Case::from_json(v).ok_or("bad case")?;
    Ok(check(&c).err())
}

fn assignments(n: usize) -> Vec<Vec<u8>> {
    let mut v = Vec::new();
    if n <= 4 {
        crate::enumerate::strings(&[0u8, 1, 2], n, |a| {
            let distinct: std::collections::BTreeSet<u8> = a.iter().copied().collect();
            if distinct.len() >= 2 {
                v.push(a.to_vec());
            }
            true
        });
    } else {
        for i in 0..n {
            let mut a = vec![0u8; n];
            a[i] = 1;
            v.push(a);
        }
        v.push((0..n).map(|i| (i % 2) as u8).collect());
        v.push((0..n).map(|i| if i == 3 { 0 } else { 1 }).collect());
    }
    v
}

fn orientations(n: usize) -> Vec<Vec<bool>> {
    vec![vec![false; n], vec![true; n], (0..n).map(|i| i % 2 == 1).collect(), (0..n).map(|i| i == 0).collect()]
}

pub fn run(ctx: &Ctx, rep: &mut Report) {
    let thorough = ctx.tier.thorough();
    let ks: Vec<usize> = if thorough { ALL_K.to_vec() } else { vec![5, 7, 9, 15, 31, 33, 63] };
    let mut idx = 0u64;
    'all: for k in ks {
        let h = (k - 1) / 2;
        let members = if thorough || k <= 7 { 2 } else { 1 };
        for member in 0..members {
            let l = 6 * k;
            let anc7 = repeat_free(l + k, k, 0, ctx.seed * 10 + member as u64);
            let anc = anc7[..l].to_vec();
            // grid: first site exactly h from the start, spacing exactly h+1, last site exactly h from the end
            let mut grid: Vec<usize> = Vec::new();
            let mut p = h;
            while p + h <= l - 1 {
                grid.push(p);
                p += h + 1;
            }
            let last = l - 1 - h;
            if *grid.last().unwrap() != last {
                if last - grid.last().unwrap() <= h {
                    grid.pop();
                }
                grid.push(last);
            }
            let max_sites = if thorough || k <= 7 { 3 } else { 2 };
            let site_sets = crate::enumerate::subsets(grid.len(), 1, max_sites);
            for ss in site_sets {
                let sites: Vec<usize> = ss.iter().map(|i| grid[*i]).collect();
                for n in [2usize, 3, 4, 10] {
                    let asg = assignments(n);
                    for (ai, a) in asg.iter().enumerate() {
                        for (oi, flip) in orientations(n).into_iter().enumerate() {
                            if n == 4 && oi >= 2 && !thorough {
                                continue;
                            }
                            if n == 10 && oi % 2 == 1 && !thorough {
                                continue;
                            }
                            // cut between grid points (or none); must respect the margin, else the case is a negative control
                            for cut in [0usize, 3 * k + (ai % 3)] {
                                if cut != 0 && (ai + oi) % 4 != 0 {
                                    continue;
                                }
                                idx += 1;
                                if !ctx.mine(idx) {
                                    continue;
                                }
                                // site j uses the assignment rotated by j so that sites differ
                                let alleles: Vec<Vec<u8>> = (0..sites.len()).map(|j| asg[(ai + j * 7) % asg.len()].clone()).collect();
                                let _ = a;
                                let mut c = Case { k, ancestor: anc.clone(), sites: sites.clone(), alleles, flip: flip.clone(), cut };
                                if cut == 0 && (ai + oi) % 3 == 0 {
                                    // extra contig of length exactly k carrying a site at its centre (h from both ends)
                                    c.ancestor = anc7.clone();
                                    c.cut = l;
                                    c.sites.push(l + h);
                                    c.alleles.push(asg[(ai + 3) % asg.len()].clone());
                                    rep.corner("contig_of_length_exactly_k_with_centred_site");
                                }
                                rep.evaluations += 1;
                                match check(&c) {
                                    Ok(true) => {
                                        rep.nontrivial += 1;
                                        if rep.evaluations % 64 == 0 {
                                            rep.outcome(&c.planted());
                                        }
                                        if sites.contains(&h) || sites.contains(&last) {
                                            rep.corner("site_exactly_h_from_a_contig_end");
                                        }
                                        if sites.windows(2).any(|w| w[1] - w[0] == h + 1) {
                                            rep.corner("sites_exactly_h_plus_1_apart");
                                        }
                                    }
                                    Ok(false) => rep.corner("premise_not_met_(negative_control_or_collision)"),
                                    Err(e) => rep.violate(format!("{}", c.json()), format!("k={k} n={n} sites={sites:?} cut={cut}: {e}"), c.json()),
                                }
                                if rep.evaluations % 40000 == 5 {
                                    rep.sample(c.json());
                                }
                            }
                        }
                    }
                    if ctx.expired() {
                        rep.capped = true;
                        break 'all;
                    }
                }
            }
        }
        rep.completed.push(format!("k={k}"));
    }
    rep.sample(json!({"k": 7, "sites": [3, 7, 38], "alleles": [[0, 1], [1, 0], [0, 2]], "flip": [false, true], "cut": 0, "oracle": "exactly the planted columns, modulo complement"}));
    // sites whose two arms are homopolymers (A^h x A^h, also C, G, T): arms that encode as all-zero / all-one bit
    // patterns and equal their own complement pattern; both strand modes through check()
    if !rep.capped {
        for k in [5usize, 7, 9, 15, 31, 33] {
            let h = (k - 1) / 2;
            for letter in *b"ACGT" {
                for mid in *b"ACGT" {
                    idx += 1;
                    if !ctx.mine(idx) {
                        continue;
                    }
                    let pre = repeat_free(3 * k, k, 0, ctx.seed + 310);
                    let post = repeat_free(3 * k, k, 0, ctx.seed + 311);
                    let mut anc = pre.clone();
                    // a separator that differs from the arm letter keeps the run exactly h long
                    let sep = if letter == b'A' || letter == b'T' { b'C' } else { b'A' };
                    anc.push(sep);
                    anc.extend(std::iter::repeat(letter).take(h));
                    let site = anc.len();
                    anc.push(mid);
                    anc.extend(std::iter::repeat(letter).take(h));
                    anc.push(sep);
                    anc.extend_from_slice(&post);
                    for alleles in [vec![0u8, 1, 2], vec![0, 1, 1], vec![0, 0, 2]] {
                        let c = Case { k, ancestor: anc.clone(), sites: vec![site], alleles: vec![alleles], flip: vec![false, false, false], cut: 0 };
                        rep.evaluations += 1;
                        match check(&c) {
                            Ok(true) => {
                                rep.nontrivial += 1;
                                rep.corner("site_with_homopolymer_arms");
                            }
                            Ok(false) => rep.corner("premise_not_met_(negative_control_or_collision)"),
                            Err(e) => rep.violate(format!("{}", c.json()), format!("k={k} site with arms {}^{h}: {e}", letter as char), c.json()),
                        }
                    }
                }
            }
        }
        rep.completed.push("homopolymer arms".into());
    }
    // CLI sub-family: names from file names, both routes
    if !rep.capped {
        for k in [17usize, 31, 33] {
            idx += 1;
            if !ctx.mine(idx) {
                continue;
            }
            let h = (k - 1) / 2;
            let anc = repeat_free(6 * k, k, 0, ctx.seed + 300);
            let sites = vec![h, 3 * k, 6 * k - 1 - h];
            let c = Case { k, ancestor: anc, sites, alleles: vec![vec![0, 1, 1], vec![1, 0, 2], vec![2, 2, 0]], flip: vec![false, true, false], cut: 0 };
            let dir = scratch::path("c03cli");
            let _ = std::fs::create_dir_all(&dir);
            let samples = c.samples();
            // names are derived from the file names: extension removed, directory dropped
            let files = ["sub/alpha.v2.fa", "BETA.FASTA", "gamma.fa"];
            let _ = std::fs::create_dir_all(format!("{dir}/sub"));
            for (i, f) in files.iter().enumerate() {
                std::fs::write(format!("{dir}/{f}"), scratch::fasta(&samples[i])).unwrap();
            }
            let want_names = vec!["alpha.v2".to_string(), "BETA".to_string(), "gamma".to_string()];
            let ks = k.to_string();
            let mut outs = Vec::new();
            let b = cli::run(&["build", "-k", &ks, "-o", "x", files[0], files[1], files[2]], &dir, None);
            if b.code == 0 {
                outs.push(("build + align skf", cli::run(&["align", "x.skf", "--min-freq", "1"], &dir, None)));
            }
            if k == 17 {
                outs.push(("align fasta files", cli::run(&["align", files[0], files[1], files[2], "--min-freq", "1"], &dir, None)));
            }
            // the same samples reaching align through a merged file (a two-sample file merged with a one-sample file)
            let b2 = cli::run(&["build", "-k", &ks, "-o", "ab", files[0], files[1]], &dir, None);
            let b1 = cli::run(&["build", "-k", &ks, "-o", "c1", files[2]], &dir, None);
            let mg = cli::run(&["merge", "ab.skf", "c1.skf", "-o", "m"], &dir, None);
            if b2.code == 0 && b1.code == 0 && mg.code == 0 {
                outs.push(("build + merge + align", cli::run(&["align", "m.skf", "--min-freq", "1"], &dir, None)));
            } else {
                rep.violate(format!("cli build/merge k={k}"), format!("build/build/merge exit {} {} {}", b2.code, b1.code, mg.code), json!({"cli": "build + merge", "k": k}));
            }
            for (route, o) in outs {
                rep.evaluations += 1;
                rep.nontrivial += 1;
                rep.corner("cli_align");
                let (nm, seqs) = real::parse_fasta(&o.stdout);
                let mut got: Vec<Vec<u8>> = real::columns_of(&seqs).unwrap_or_default().iter().map(|x| canon_col(x)).collect();
                got.sort();
                if o.code != 0 || nm != want_names || got != c.planted() {
                    rep.violate(format!("cli {route} k={k}"), format!("{route}: exit {} names {nm:?}, {} columns, planted {}", o.code, got.len(), c.planted().len()), json!({"cli": route, "k": k}));
                }
            }
        }
        // ten samples through the CLI with --threads 2 (parallel build path): names and columns as single-threaded
        idx += 1;
        if ctx.mine(idx) {
            let k = 17usize;
            let h = (k - 1) / 2;
            let anc = repeat_free(6 * k, k, 0, ctx.seed + 301);
            let n = 10usize;
            // derived alleles carried mostly by the second half of the samples
            let c = Case { k, ancestor: anc, sites: vec![h, 3 * k, 6 * k - 1 - h], alleles: vec![(0..n).map(|i| (i >= 5) as u8).collect(), (0..n).map(|i| (i == 9) as u8).collect(), (0..n).map(|i| (i >= 7) as u8 * 2).collect()], flip: (0..n).map(|i| i % 3 == 1).collect(), cut: 0 };
            let dir = scratch::path("c03cli10");
            let _ = std::fs::create_dir_all(&dir);
            let samples = c.samples();
            let mut args: Vec<String> = vec!["align".into(), "--min-freq".into(), "1".into(), "--threads".into(), "2".into()];
            let mut want_names = Vec::new();
            for i in 0..n {
                let nm = crate::samples::odd_name(i);
                std::fs::write(format!("{dir}/{nm}.fa"), scratch::fasta(&samples[i])).unwrap();
                args.push(format!("{nm}.fa"));
                want_names.push(nm);
            }
            let av: Vec<&str> = args.iter().map(|s| s.as_str()).collect();
            let o = cli::run(&av, &dir, None);
            rep.evaluations += 1;
            rep.nontrivial += 1;
            rep.corner("cli_align_10_samples_2_threads");
            let (nm, seqs) = real::parse_fasta(&o.stdout);
            let mut got: Vec<Vec<u8>> = real::columns_of(&seqs).unwrap_or_default().iter().map(|x| canon_col(x)).collect();
            got.sort();
            if o.code != 0 || nm != want_names || got != c.planted() {
                rep.violate("cli align 10 samples --threads 2".into(), format!("ska align --threads 2 on 10 FASTA files: exit {} names {nm:?}, {} columns, planted {}", o.code, got.len(), c.planted().len()), json!({"cli": "align 10 samples 2 threads"}));
            }
        }
        rep.completed.push("CLI sub-family".into());
    }
}
