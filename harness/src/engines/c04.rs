//! C04 — mapped alignment equals the union of matched k-mer windows on the reference.
//! C05 — the VCF from map carries the same information as the mapped alignment.
//! One engine, two verdicts: C04 compares the real alignment with the model; C05 relates the
//! real VCF to the real alignment of the same run (and to the upper-cased reference).

use serde_json::{json, Value};
use std::collections::BTreeMap;

use crate::cli;
use crate::enumerate::{repeat_free, strings};
use crate::explore::{Ctx, Meta, Report};
use crate::forkrun::ChildResult;
use crate::observe::{model_vcf_canon, vcf_canon, RefSeq};
use crate::real;
use crate::refmodel::*;
use crate::scratch;

pub fn meta(id: &'static str) -> Meta {
    let common = "references of 1..3 contigs (the FASTA written in one of four layouts per case: one line per contig; lines of 4; lines of 3 with CRLF; one line with CRLF and no final line end) given to the real RefSka::new + map + write_aln/write_vcf (each run in a forked child), samples presented as forged dictionaries so that ANY presence pattern and middle byte can occur. Level A (writer state machine), k=5 and 7: contig lengths from {1, h, k-1, k, k+1, k+2, 2k-1, 2k, 2k+1, 3k} (all single contigs, all ordered pairs, a declared set of triples incl. contigs without k-mers before/between/after others); for each reference EVERY subset of its k-mer centres as 'matched' (references with more than 12 centres: every subset of every window of 10 consecutive centres, rest all-matched or all-unmatched), middle byte cycling through reference base / other base / ambiguity code / N, eight samples per run (one pattern per sample column), both strand modes, mask flags. Level B (reference handling), k=5: every reference over {A,C,G,T,N} up to length 7 (thorough 8) mapped against itself, case variants, every single substitution and every deletion of 1..k letters of a repeat-free reference, reverse-complemented and swapped contigs, contigs without any letter (first, in the middle, two in a row; not last: a header without a sequence line at the end of the file is not a FASTA record), planted repeats (same/opposite strand, across contigs, overlapping, behind a contig shorter than k) under all four mask-flag combinations; an IUPAC code (either case) at every position of a reference contig, against samples that carry each of the four bases there with and without an adjacent SNP, a sample that holds exactly the code's bases (its stored code equals the reference letter) and one that holds all four, together and alone.";
    if id == "C04" {
        Meta {
            id: "C04",
            level: "model_checking",
            rule: format!("bounded exhaustive exploration of the alignment writer's operation sequences: {common} Oracle: the three-way case distinction of the statement implemented literally (matched centre -> strand-corrected middle base; within (k-1)/2 of a matched centre on the same contig -> upper-case reference base; else '-'), then the two masks. States = distinct (reference layout, matched-centre pattern) inputs driven through the writer; transitions = write_split_kmer calls implied (matched centres); every run is the real implementation, so each explored sequence is validated against it. Through the CLI additionally every flag combination at k = 9, 31, 33, 63, `ska map` straight from sequence files (k = 17 built on the fly), a reference with a 70 000-base contig (positions beyond 2^16) and one of 65 537 contigs."),
            assumptions: vec!["a map in which no k-mer matches may be refused or print all gaps; a reference without any k-mer is refused".into(), "a reference letter outside A/C/G/T/N must be shown as itself (upper-case) where the reference base is shown; how it is read inside a k-mer is not defined by the tool, so any consistent reading (A, C, G, T or not-a-base, the same for the whole run) is accepted".into()],
            exhaustive_when_uncapped: true,
        }
    } else {
        Meta {
            id: "C05",
            level: "exploration",
            rule: format!("for every case of the C04 families the real `write_vcf` output is related to the real `write_aln` output of the same inputs and the upper-cased reference: a record at (contig, 1-based position) exists exactly where some sample's aligned character differs from the upper-case reference base; REF is that base (N if not A/C/G/T); every genotype decodes through REF/ALT to the aligned character with '.' for '-' and N for ambiguity codes; contig names/order and sample order as given. Families: {common} Plus a CLI family (`ska map -f vcf|aln`, several contigs, ##contig header; a reference with a 70 000-base contig and one of 65 537 contigs)."),
            assumptions: vec!["the relation is evaluated between two real outputs, so it does not depend on the C04 model".into()],
            exhaustive_when_uncapped: true,
        }
    }
}

pub struct MapCase {
    pub reference: Vec<Vec<u8>>,
    pub table: Table,
    pub ambig_mask: bool,
    pub repeat_mask: bool,
}

fn map_any(path: &str, t: &Table, am: bool, rm: bool, vcf: bool) -> ChildResult {
    if t.k <= 31 {
        real::map_child::<u64>(path, t, am, rm, 1, vcf)
    } else {
        real::map_child::<u128>(path, t, am, rm, 1, vcf)
    }
}

fn dicts_of(t: &Table) -> Vec<BTreeMap<String, u8>> {
    (0..t.names.len()).map(|i| t.rows.iter().filter(|(_, r)| r[i] != b'-').map(|(a, r)| (a.clone(), r[i])).collect()).collect()
}

fn case_json(c: &MapCase) -> Value {
    json!({
        "reference": c.reference.iter().map(|s| String::from_utf8_lossy(s).to_string()).collect::<Vec<_>>(),
        "k": c.table.k, "rc": c.table.rc, "names": c.table.names,
        "rows": c.table.rows.iter().map(|(k, v)| format!("{k}:{}", String::from_utf8_lossy(v))).collect::<Vec<_>>(),
        "ambig_mask": c.ambig_mask, "repeat_mask": c.repeat_mask,
    })
}

pub fn case_from(v: &Value) -> Result<MapCase, String> {
    let reference: Vec<Vec<u8>> = v["reference"].as_array().ok_or("reference")?.iter().map(|s| s.as_str().unwrap().as_bytes().to_vec()).collect();
    let names: Vec<String> = v["names"].as_array().ok_or("names")?.iter().map(|s| s.as_str().unwrap().to_string()).collect();
    let mut rows = BTreeMap::new();
    for r in v["rows"].as_array().ok_or("rows")? {
        let s = r.as_str().unwrap();
        let (k, b) = s.split_once(':').ok_or("row")?;
        rows.insert(k.to_string(), b.as_bytes().to_vec());
    }
    Ok(MapCase { reference, table: Table { k: v["k"].as_u64().unwrap() as usize, rc: v["rc"].as_bool().unwrap(), names, rows }, ambig_mask: v["ambig_mask"].as_bool().unwrap(), repeat_mask: v["repeat_mask"].as_bool().unwrap() })
}

/// The reference FASTA in one of four layouts, chosen from the case itself (so that a replay writes the same
/// file): 0 = one line per contig, LF; 1 = lines of 4, LF; 2 = lines of 3, CRLF; 3 = one line, CRLF, no final
/// line end. Headers carry a description after the contig name.
fn ref_layout(reference: &[Vec<u8>], layout: u64) -> Vec<u8> {
    let (width, eol): (usize, &[u8]) = match layout % 4 {
        0 => (usize::MAX, b"\n"),
        1 => (4, b"\n"),
        2 => (3, b"\r\n"),
        _ => (usize::MAX, b"\r\n"),
    };
    let mut out = Vec::new();
    for (i, s) in reference.iter().enumerate() {
        out.extend_from_slice(format!(">ctg{i} some description").as_bytes());
        out.extend_from_slice(eol);
        if s.is_empty() {
            continue;
        }
        for chunk in s.chunks(width.min(s.len().max(1))) {
            out.extend_from_slice(chunk);
            out.extend_from_slice(eol);
        }
    }
    if layout % 4 == 3 {
        for _ in 0..eol.len() {
            out.pop();
        }
    }
    out
}

fn ref_file(c: &MapCase) -> (String, RefSeq) {
    let layout = crate::explore::hash64(&(&c.reference, c.table.rows.len()));
    let path = scratch::write("c04_ref.fa", &ref_layout(&c.reference, layout));
    (path.clone(), RefSeq { path, names: (0..c.reference.len()).map(|i| format!("ctg{i}")).collect(), seqs: c.reference.clone() })
}

fn split_contigs(seq: &[u8], reference: &[Vec<u8>]) -> Option<Vec<Vec<u8>>> {
    let total: usize = reference.iter().map(|r| r.len()).sum();
    if seq.len() != total {
        return None;
    }
    let mut out = Vec::new();
    let mut off = 0;
    for r in reference {
        out.push(seq[off..off + r.len()].to_vec());
        off += r.len();
    }
    Some(out)
}

/// C04 verdict for one case; returns Ok(real alignment per sample, if produced)
pub fn check_aln(c: &MapCase) -> Result<Option<Vec<Vec<u8>>>, String> {
    let (path, _) = ref_file(c);
    // Reference letters outside A/C/G/T/N: the statement fixes how they are *shown* (upper-case reference base),
    // not how they are read as k-mer letters. Every consistent reading (one of A, C, G, T or "not a base" per kind
    // of letter, the same for the whole run) is accepted; the first one that reproduces the real output is used.
    let mut kinds: Vec<u8> = c.reference.iter().flatten().map(|b| b.to_ascii_uppercase()).filter(|b| !matches!(*b, b'A' | b'C' | b'G' | b'T' | b'N')).collect();
    kinds.sort();
    kinds.dedup();
    if kinds.len() > 2 {
        return Err("MACHINERY more than two kinds of extra reference letters".into());
    }
    let readings: Vec<Vec<u8>> = match kinds.len() {
        0 => vec![vec![]],
        1 => b"ACGTN".iter().map(|x| vec![*x]).collect(),
        _ => b"ACGTN".iter().flat_map(|x| b"ACGTN".iter().map(move |y| vec![*x, *y])).collect(),
    };
    let dicts = dicts_of(&c.table);
    let read_as = |reading: &Vec<u8>| -> Vec<Vec<u8>> {
        c.reference.iter().map(|s| s.iter().map(|b| match kinds.iter().position(|x| *x == b.to_ascii_uppercase()) { Some(i) => reading[i], None => *b }).collect()).collect()
    };
    let mut cands: Vec<(Vec<Vec<Vec<u8>>>, bool, Vec<Vec<u8>>)> = Vec::new();
    for r in &readings {
        let kref = read_as(r);
        let (w, a) = model_map_disp(&kref, &c.reference, &dicts, c.table.k, c.table.rc, c.ambig_mask, c.repeat_mask);
        cands.push((w, a, kref));
    }
    let ref_has_kmers = cands.iter().any(|(_, _, kref)| kref.iter().any(|s| !windows(s, c.table.k).is_empty()));
    let any = cands.iter().any(|(_, a, _)| *a);
    let (mut want, _, _) = cands[0].clone();
    let r = map_any(&path, &c.table, c.ambig_mask, c.repeat_mask, false);
    match r {
        ChildResult::Ok(out) => {
            let (names, seqs) = real::parse_fasta(&out);
            if names != c.table.names {
                return Err(format!("sample names/order {names:?}, expected {:?}", c.table.names));
            }
            if let Some((w, _, _)) = cands.iter().find(|(w, _, _)| w.iter().map(|a| a.concat()).collect::<Vec<Vec<u8>>>() == seqs) {
                want = w.clone();
            }
            let want_cat: Vec<Vec<u8>> = want.iter().map(|a| a.concat()).collect();
            if seqs != want_cat {
                let i = seqs.iter().zip(&want_cat).position(|(a, b)| a != b).unwrap_or(0);
                return Err(format!(
                    "sample {i}: mapped sequence {:?} but the matched windows give {:?}",
                    seqs.get(i).map(|s| String::from_utf8_lossy(s).to_string()),
                    want_cat.get(i).map(|s| String::from_utf8_lossy(s).to_string())
                ));
            }
            Ok(Some(seqs))
        }
        ChildResult::Panic(m) => {
            if !ref_has_kmers && m.contains("no valid sequence") {
                return Ok(None);
            }
            if !any && m.contains("No split k-mers mapped") {
                return Ok(None);
            }
            Err(format!("map panicked: {}", m.chars().take(160).collect::<String>()))
        }
        ChildResult::Timeout => Err("MACHINERY map child timed out".into()),
        ChildResult::Exit(code) => Err(format!("map exited with status {code}")),
    }
}

/// C05 verdict for one case, given the real alignment
pub fn check_vcf(c: &MapCase, real_aln: &[Vec<u8>]) -> Result<(), String> {
    let (path, rf) = ref_file(c);
    let r = map_any(&path, &c.table, c.ambig_mask, c.repeat_mask, true);
    match r {
        ChildResult::Ok(out) => {
            let alns: Option<Vec<Vec<Vec<u8>>>> = real_aln.iter().map(|s| split_contigs(s, &c.reference)).collect();
            let alns = alns.ok_or("alignment length differs from the reference length")?;
            let got = vcf_canon(&out, &rf.names)?;
            let want = model_vcf_canon(&rf, &c.table.names, &alns);
            if got != want {
                let cut = |s: &str| if s.len() > 260 { format!("{}…", &s[..260]) } else { s.to_string() };
                return Err(format!("VCF says {} but the alignment of the same run implies {}", cut(&got), cut(&want)));
            }
            Ok(())
        }
        ChildResult::Timeout => Err("MACHINERY map child timed out".into()),
        other => Err(format!("write_vcf failed although write_aln succeeded: {other:?}")),
    }
}

struct Driver<'a> {
    rep: &'a mut Report,
    want_vcf: bool,
}

impl Driver<'_> {
    fn run(&mut self, c: &MapCase, fam: &str) {
        self.rep.evaluations += 1;
        let n_matched: usize = c.table.rows.len();
        self.rep.transitions += n_matched as u64;
        if self.rep.evaluations % 32 == 0 {
            self.rep.outcome(&(c.reference.clone(), c.table.rows.clone(), c.ambig_mask, c.repeat_mask));
        }
        match check_aln(c) {
            Ok(Some(aln)) => {
                self.rep.nontrivial += 1;
                if self.want_vcf {
                    if let Err(e) = check_vcf(c, &aln) {
                        if e.starts_with("MACHINERY") {
                            self.rep.machinery(e);
                        } else {
                            let j = case_json(c);
                            self.rep.violate(format!("{fam} {j}"), format!("[{fam}] {e}"), j);
                        }
                    }
                }
            }
            Ok(None) => {
                self.rep.corner("refused_without_any_match");
            }
            Err(e) => {
                if e.starts_with("MACHINERY") {
                    self.rep.machinery(e);
                } else if !self.want_vcf {
                    let j = case_json(c);
                    self.rep.violate(format!("{fam} {j}"), format!("[{fam}] {e}"), j);
                } else {
                    // C05 cannot relate anything when the alignment itself is wrong; that is C04's finding
                    self.rep.corner("alignment_disagrees_with_model(C04)");
                    // still relate VCF to the real alignment when one was produced
                    let (path, _) = ref_file(c);
                    if let ChildResult::Ok(out) = map_any(&path, &c.table, c.ambig_mask, c.repeat_mask, false) {
                        let (_, seqs) = real::parse_fasta(&out);
                        if let Err(e2) = check_vcf(c, &seqs) {
                            if !e2.starts_with("MACHINERY") {
                                let j = case_json(c);
                                self.rep.violate(format!("{fam} {j}"), format!("[{fam}] {e2}"), j);
                            }
                        }
                    }
                }
            }
        }
    }
}

pub fn replay(id: &str, v: &Value) -> Result<Option<String>, String> {
    let c = case_from(v)?;
    match check_aln(&c) {
        Ok(Some(aln)) => {
            if id == "C05" {
                Ok(check_vcf(&c, &aln).err())
            } else {
                Ok(None)
            }
        }
        Ok(None) => Ok(None),
        Err(e) => {
            if id == "C04" {
                Ok(Some(e))
            } else {
                let (path, _) = ref_file(&c);
                if let ChildResult::Ok(out) = map_any(&path, &c.table, c.ambig_mask, c.repeat_mask, false) {
                    let (_, seqs) = real::parse_fasta(&out);
                    Ok(check_vcf(&c, &seqs).err())
                } else {
                    Ok(None)
                }
            }
        }
    }
}

/// distinct canonical keys of the reference's k-mers in order of first occurrence
fn ref_keys(reference: &[Vec<u8>], k: usize, rc: bool) -> Vec<(String, u8, bool)> {
    let mut seen = std::collections::BTreeSet::new();
    let mut v = Vec::new();
    for s in reference {
        for (p, w) in windows(s, k) {
            let (a, _, f) = canon(&w, rc);
            if seen.insert(a.clone()) {
                v.push((a, upper(s)[p], f));
            }
        }
    }
    v
}

fn middle_byte(choice: usize, refbase: u8, flipped: bool) -> u8 {
    // stored in canonical orientation
    let fix = |b: u8| if flipped { rc_code(b) } else { b };
    match choice % 4 {
        0 => fix(refbase),
        1 => fix(match refbase {
            b'A' => b'C',
            b'C' => b'G',
            b'G' => b'T',
            _ => b'A',
        }),
        2 => fix(code_of(base_bit(refbase) | base_bit(comp(refbase)) | if refbase == b'A' || refbase == b'T' { 2 } else { 1 })),
        _ => b'N',
    }
}

fn table_for(k: usize, rc: bool, keys: &[(String, u8, bool)], masks: &[u64]) -> Table {
    let n = masks.len();
    let mut rows = BTreeMap::new();
    for (i, (a, rb, f)) in keys.iter().enumerate() {
        let row: Vec<u8> = masks.iter().enumerate().map(|(si, m)| if m & (1 << i) != 0 { middle_byte(i + si, *rb, *f) } else { b'-' }).collect();
        if row.iter().any(|b| *b != b'-') {
            rows.insert(a.clone(), row);
        }
    }
    Table { k, rc, names: crate::samples::odd_names(n), rows }
}

pub fn run(ctx: &Ctx, rep: &mut Report, id: &str) {
    let thorough = ctx.tier.thorough();
    let want_vcf = id == "C05";
    let mut d = Driver { rep, want_vcf };
    let mut idx = 0u64;
    // ---------------- Level A
    let light = want_vcf && !thorough; // C05 quick: each case costs two runs, so the k=7 writer family and length-7 self maps are left to C04 / thorough
    'levela: for k in [5usize, 7] {
        if light && k == 7 {
            continue;
        }
        let h = (k - 1) / 2;
        let lens = [1usize, h, k - 1, k, k + 1, k + 2, 2 * k - 1, 2 * k, 2 * k + 1, 3 * k];
        let source = repeat_free(3 * k * 4, k, 0, ctx.seed + 40 + k as u64);
        let mut layouts: Vec<Vec<usize>> = Vec::new();
        for a in lens {
            layouts.push(vec![a]);
        }
        // quick tier at k=7: pairs over the lengths around k only (k=5 and thorough: all 100 ordered pairs)
        let pair_lens: Vec<usize> = if k == 7 && !thorough { vec![h, k - 1, k, k + 1] } else { lens.to_vec() };
        for a in &pair_lens {
            for b in &pair_lens {
                layouts.push(vec![*a, *b]);
            }
        }
        for (a, b, c) in [(k + 1, h, k + 1), (h, k + 2, 1), (k, k - 1, k), (2 * k, 1, k + 2), (k + 2, k, 2 * k - 1), (1, h, k + 1), (k + 1, 1, h), (k - 1, k + 1, k - 1)] {
            layouts.push(vec![a, b, c]);
        }
        for lay in layouts {
            // cut contigs out of the repeat-free source (distinct regions -> distinct k-mers)
            let mut reference = Vec::new();
            let mut off = 0;
            for l in &lay {
                reference.push(source[off..off + l].to_vec());
                off += l + 1;
            }
            for rc in [true, false] {
                let keys = ref_keys(&reference, k, rc);
                let nk = keys.len();
                if nk == 0 {
                    idx += 1;
                    if ctx.mine(idx) {
                        let t = table_for(k, rc, &[("A".repeat(k - 1), b'A', false)], &[1, 1]);
                        d.run(&MapCase { reference: reference.clone(), table: t, ambig_mask: false, repeat_mask: false }, "A: reference without k-mers");
                    }
                    continue;
                }
                let mut patterns: Vec<u64> = Vec::new();
                if nk <= 12 {
                    for m in 0..(1u64 << nk) {
                        patterns.push(m);
                    }
                } else {
                    let step = if thorough { 1 } else { 3 };
                    let mut start = 0;
                    while start + 10 <= nk {
                        for sub in 0..(1u64 << 10) {
                            if !thorough && sub % 3 != 0 {
                                continue;
                            }
                            let inside = sub << start;
                            let outside_all = ((1u64 << nk) - 1) & !(((1u64 << 10) - 1) << start);
                            patterns.push(inside);
                            patterns.push(inside | outside_all);
                        }
                        start += step;
                    }
                }
                // eight samples per run: each sample column drives its own writer through one pattern
                for (ci, chunk) in patterns.chunks(8).enumerate() {
                    idx += 1;
                    if !ctx.mine(idx) {
                        continue;
                    }
                    let t = table_for(k, rc, &keys, chunk);
                    let flags = if ci % 5 == 0 { vec![(false, false), (true, true), (true, false), (false, true)] } else { vec![(false, false)] };
                    for (am, rm) in flags {
                        d.run(&MapCase { reference: reference.clone(), table: t.clone(), ambig_mask: am, repeat_mask: rm }, "A");
                        d.rep.extra.entry("writer_patterns_driven".into()).and_modify(|v| *v = json!(v.as_u64().unwrap_or(0) + chunk.len() as u64)).or_insert(json!(chunk.len() as u64));
                    }
                    if lay.len() > 1 && lay.iter().any(|l| *l < k) {
                        d.rep.corner("contig_without_kmers_among_others");
                    }
                    if d.rep.evaluations % 128 == 0 && ctx.expired() {
                        d.rep.capped = true;
                        break 'levela;
                    }
                }
            }
        }
        d.rep.completed.push(format!("level A k={k}"));
    }
    // ---------------- Level B
    if !d.rep.capped {
        let k = 5usize;
        let maxlen = if thorough { 8 } else if light { 6 } else { 7 };
        'b1: for len in k..=maxlen {
            let mut stop = false;
            let mut batch: Vec<Vec<u8>> = Vec::new();
            let mut nbatch = 0u64;
            let mut flush = |batch: &mut Vec<Vec<u8>>, d: &mut Driver, nbatch: u64| {
                if batch.is_empty() {
                    return;
                }
                // eight consecutive strings become the contigs of one reference, mapped against itself
                let reference = std::mem::take(batch);
                for rc in [true, false] {
                    let t = Table::from_samples(k, rc, &["self".to_string()], &[reference.clone()]);
                    let flags = if nbatch % 4 == 0 { vec![(false, false), (true, true)] } else { vec![(false, false)] };
                    for (am, rm) in flags {
                        d.run(&MapCase { reference: reference.clone(), table: t.clone(), ambig_mask: am, repeat_mask: rm }, "B: self map");
                    }
                    if nbatch % 8 == 0 {
                        // case variants of the reference (the sample stays as built)
                        let lower: Vec<Vec<u8>> = reference.iter().map(|s| s.to_ascii_lowercase()).collect();
                        let alt: Vec<Vec<u8>> = reference.iter().map(|s| s.iter().enumerate().map(|(i, c)| if i % 2 == 0 { c.to_ascii_lowercase() } else { *c }).collect()).collect();
                        for variant in [lower, alt] {
                            d.run(&MapCase { reference: variant, table: t.clone(), ambig_mask: false, repeat_mask: nbatch % 16 == 0 }, "B: lower-case reference");
                            d.rep.corner("lower_case_reference");
                        }
                    }
                }
            };
            strings(b"ACGTN", len, |s| {
                batch.push(s.to_vec());
                if batch.len() == 8 {
                    idx += 1;
                    nbatch += 1;
                    // quick tier: the longest length is covered by every fourth batch
                    let skip = !thorough && len == maxlen && len > k + 1 && nbatch % 4 != 0;
                    if ctx.mine(idx) && !skip {
                        flush(&mut batch, &mut d, nbatch);
                    } else {
                        batch.clear();
                    }
                }
                if idx % 256 == 0 && ctx.expired() {
                    stop = true;
                    return false;
                }
                true
            });
            flush(&mut batch, &mut d, 0);
            if stop {
                d.rep.capped = true;
                break 'b1;
            }
            d.rep.completed.push(format!("level B self-map of {} reference of length {len} (8 per run, as contigs)", if !thorough && len == maxlen && len > k + 1 { "every fourth batch of" } else { "every" }));
        }
    }
    if !d.rep.capped {
        // substitutions, deletions, reverse complement, swapped contigs, repeats
        for k in if thorough { vec![5usize, 7, 33] } else { vec![5usize, 7] } {
            let g1 = repeat_free(3 * k + 1, k, 0, ctx.seed + 51);
            let g2 = repeat_free(2 * k, k, 0, ctx.seed + 52);
            let short: Vec<u8> = g2[..k - 2].to_vec();
            let references: Vec<(&str, Vec<Vec<u8>>)> = vec![
                ("one contig", vec![g1.clone()]),
                ("two contigs", vec![g1.clone(), g2.clone()]),
                ("short contig in the middle", vec![g1[..k + 2].to_vec(), short.clone(), g2.clone()]),
                ("empty contig in the middle", vec![g1[..k + 2].to_vec(), vec![], g2.clone()]),
                ("empty contig first", vec![vec![], g1.clone()]),
                ("two empty contigs in a row", vec![g2.clone(), vec![], vec![], g1[..k + 3].to_vec()]),
                ("repeat behind a short contig", vec![g2.clone(), short.clone(), [&g1[..k + 3], &g1[..k + 1]].concat()]),
                ("repeat on the opposite strand in another contig", vec![g1.clone(), short.clone(), [g2.as_slice(), &rc_str(&g1[2..k + 4])].concat()]),
                ("overlapping repeat", vec![[&g1[..k + 2], &g1[1..k + 3], &g1[k..]].concat()]),
                ("three copies, two of them at the start of later contigs", vec![[&g1[..k + 2], &g2[..4]].concat(), [&g1[..k + 2], &g2[4..8]].concat(), g1[..k + 2].to_vec()]),
                ("adjacent repeats whose ranges touch", vec![[&g1[..k], &g2[..k], &g1[..k], &g2[..k]].concat()]),
                ("N runs", vec![{
                    let mut t = g1.clone();
                    t[k] = b'N';
                    t[k + 1] = b'n';
                    t
                }, g2.clone()]),
                ("N run longer than k", vec![[&g1[..k + 3], vec![b'N'; k + 2].as_slice(), &g1[k + 3..]].concat(), g2.clone()]),
                ("mixed case", vec![g1.iter().enumerate().map(|(i, c)| if i % 3 == 0 { c.to_ascii_lowercase() } else { *c }).collect(), g2.to_ascii_lowercase()]),
            ];
            for (rname, reference) in &references {
                let joined: Vec<u8> = reference.concat();
                let mut samples: Vec<(String, Vec<Vec<u8>>)> = vec![("identical".into(), reference.clone()), ("reverse complement".into(), reference.iter().map(|s| rc_str_n(s)).collect()), ("swapped contigs".into(), reference.iter().rev().cloned().collect())];
                for p in 0..joined.len() {
                    if upper(&joined)[p] == b'N' {
                        continue;
                    }
                    let mut s = upper(&joined);
                    s[p] = comp(s[p]);
                    samples.push((format!("substitution at {p}"), vec![s]));
                }
                for dl in 1..=k {
                    for p in (0..joined.len().saturating_sub(dl)).step_by(if thorough { 1 } else { 2 }) {
                        let s: Vec<u8> = [&joined[..p], &joined[p + dl..]].concat();
                        samples.push((format!("deletion of {dl} at {p}"), vec![s]));
                    }
                }
                for (sname, smp) in samples {
                    idx += 1;
                    if !ctx.mine(idx) {
                        continue;
                    }
                    for rc in [true, false] {
                        let t = Table::from_samples(k, rc, &["x".to_string(), "ref".to_string()], &[smp.clone(), reference.clone()]);
                        for (am, rm) in [(false, false), (true, false), (false, true), (true, true)] {
                            d.run(&MapCase { reference: reference.clone(), table: t.clone(), ambig_mask: am, repeat_mask: rm }, &format!("B: {rname} / {sname}"));
                        }
                    }
                    d.rep.corner("structured_references");
                    if ctx.expired() {
                        d.rep.capped = true;
                        break;
                    }
                }
            }
            // a reference letter outside A/C/G/T/N (an IUPAC code, either case) at every position: shown as the
            // upper-case reference letter wherever it is a flank, whatever base the tool reads it as
            let codes: &[u8] = if thorough { b"RYKMSWBDHVrw" } else { b"RKSy" };
            for code in codes {
                for p in 0..g1.len() {
                    idx += 1;
                    if !ctx.mine(idx) || d.rep.capped {
                        continue;
                    }
                    let mut reference = vec![g1.clone(), g2.clone()];
                    reference[0][p] = *code;
                    let q = if p + 1 < g1.len() { p + 1 } else { p - 1 };
                    let mut names = Vec::new();
                    let mut smps = Vec::new();
                    for x in b"ACGT" {
                        let mut a = g1.clone();
                        a[p] = *x;
                        let mut b = a.clone();
                        b[q] = comp(b[q]);
                        names.push(format!("as{}", *x as char));
                        smps.push(vec![a, g2.clone()]);
                        names.push(format!("as{}snp", *x as char));
                        smps.push(vec![b]);
                    }
                    // samples that hold several alleles at p themselves: the one whose stored code IS the reference letter
                    // (aligned character equal to the reference: no VCF record on its account), and one holding all four
                    if let Some(set) = set_of(code.to_ascii_uppercase()) {
                        let mut same: Vec<Vec<u8>> = b"ACGT".iter().filter(|x| set & set_of(**x).unwrap_or(0) != 0).map(|x| { let mut a = g1.clone(); a[p] = *x; a }).collect();
                        same.push(g2.clone());
                        names.push("holds_the_code".to_string());
                        smps.push(same);
                        names.push("holds_all_four".to_string());
                        smps.push(b"ACGT".iter().map(|x| { let mut a = g1.clone(); a[p] = *x; a }).collect());
                    }
                    for rc in [true, false] {
                        let t = Table::from_samples(k, rc, &names, &smps);
                        for (am, rm) in [(false, false), (true, false), (false, true), (true, true)] {
                            d.run(&MapCase { reference: reference.clone(), table: t.clone(), ambig_mask: am, repeat_mask: rm }, &format!("B: reference letter {} at {p}", *code as char));
                            // and the code-holding samples alone (no other sample forces a record at p)
                            if names.len() > 8 {
                                let t2 = Table::from_samples(k, rc, &names[8..], &smps[8..]);
                                d.run(&MapCase { reference: reference.clone(), table: t2, ambig_mask: am, repeat_mask: rm }, &format!("B: reference letter {} at {p}, samples holding it", *code as char));
                                let t3 = Table::from_samples(k, rc, &names[8..9], &smps[8..9]);
                                d.run(&MapCase { reference: reference.clone(), table: t3, ambig_mask: am, repeat_mask: rm }, &format!("B: reference letter {} at {p}, one sample holding exactly it", *code as char));
                            }
                        }
                    }
                    d.rep.corner("reference_letter_outside_ACGTN");
                    if ctx.expired() {
                        d.rep.capped = true;
                    }
                }
            }
            d.rep.completed.push(format!("level B structured references k={k}"));
        }
    }
    // ---------------- CLI glue: every flag combination at both integer widths
    if !d.rep.capped {
        for k in [9usize, 31, 33, 63] {
            idx += 1;
            if !ctx.mine(idx) {
                continue;
            }
            let g1 = repeat_free(4 * k + 3, k, 0, ctx.seed + 60);
            let g2 = repeat_free(2 * k + 5, k, 0, ctx.seed + 61);
            // contig 1 carries an exact repeat of its first k+2 letters; contig 2 is lower case
            let c1: Vec<u8> = [&g1[..], &g1[..k + 2]].concat();
            let reference = vec![c1.clone(), g2.to_ascii_lowercase()];
            let dir = scratch::path("c04cli");
            let _ = std::fs::remove_dir_all(&dir);
            let _ = std::fs::create_dir_all(&dir);
            std::fs::write(format!("{dir}/ref.fa"), scratch::fasta_named(&[("chrA first".into(), reference[0].clone()), ("chrB".into(), reference[1].clone())])).unwrap();
            // sample a: a SNP, plus a diverged duplicate of a window (ambiguity code); sample b: reverse complement of contig 1
            let mut s1 = g1.clone();
            s1[2 * k] = comp(s1[2 * k]);
            let mut dup = g1[k..2 * k + 1].to_vec();
            dup[(k - 1) / 2 + 1] = comp(dup[(k - 1) / 2 + 1]);
            let sa = vec![s1, g2.clone(), dup];
            let sb = vec![rc_str(&g1)];
            std::fs::write(format!("{dir}/a.fa"), scratch::fasta(&sa)).unwrap();
            std::fs::write(format!("{dir}/b.fa"), scratch::fasta(&sb)).unwrap();
            let ks = k.to_string();
            let b = cli::run(&["build", "-k", &ks, "-o", "x", "a.fa", "b.fa"], &dir, None);
            let names = vec!["a".to_string(), "b".to_string()];
            let t = Table::from_samples(k, true, &names, &[sa, sb]);
            let rf = RefSeq { path: format!("{dir}/ref.fa"), names: vec!["chrA".into(), "chrB".into()], seqs: reference.clone() };
            for (am, rm) in [(false, false), (true, false), (false, true), (true, true)] {
                d.rep.evaluations += 1;
                d.rep.nontrivial += 1;
                d.rep.corner("cli_map");
                let mut args = vec!["map", "ref.fa", "x.skf"];
                if am {
                    args.push("--ambig-mask");
                }
                if rm {
                    args.push("--repeat-mask");
                }
                let o = cli::run(&args, &dir, None);
                let (want, _) = model_map(&reference, &dicts_of(&t), k, true, am, rm);
                let (nm, seqs) = real::parse_fasta(&o.stdout);
                let want_cat: Vec<Vec<u8>> = want.iter().map(|a| a.concat()).collect();
                let aln_ok = b.code == 0 && o.code == 0 && nm == names && seqs == want_cat;
                if am != rm && want_cat == model_map(&reference, &dicts_of(&t), k, true, rm, am).0.iter().map(|a| a.concat()).collect::<Vec<_>>() {
                    d.rep.machinery("C04 CLI family: the two mask flags are not distinguishable on this input".into());
                }
                if !want_vcf && !aln_ok {
                    d.rep.violate(format!("cli map k={k} am={am} rm={rm}"), format!("ska map at k={k} --ambig-mask={am} --repeat-mask={rm} (exit {}) differs from the model", o.code), json!({"cli": true, "k": k, "am": am, "rm": rm}));
                }
                if want_vcf && o.code == 0 {
                    let mut va = args.clone();
                    va.extend(["-f", "vcf"]);
                    let v = cli::run(&va, &dir, None);
                    let alns: Option<Vec<Vec<Vec<u8>>>> = seqs.iter().map(|s| split_contigs(s, &reference)).collect();
                    let ok = match (vcf_canon(&v.stdout, &rf.names), alns) {
                        (Ok(got), Some(alns)) => v.code == 0 && got == model_vcf_canon(&rf, &nm, &alns),
                        _ => false,
                    };
                    if !ok {
                        d.rep.violate(format!("cli map vcf k={k} am={am} rm={rm}"), "ska map -f vcf does not carry the information of ska map -f aln".into(), json!({"cli": true, "vcf": true, "k": k, "am": am, "rm": rm}));
                    }
                }
            }
        }
        // one step instead of two: `ska map ref.fa a.fa b.fa` (sequence files, built on the fly with the default k = 17)
        // must print what the model gives for k = 17, with every mask flag combination, as alignment and as VCF
        {
            idx += 1;
            if ctx.mine(idx) {
                let k = 17usize;
                let g1 = repeat_free(4 * k + 3, k, 0, ctx.seed + 62);
                let g2 = repeat_free(2 * k + 5, k, 0, ctx.seed + 63);
                let c1: Vec<u8> = [&g1[..], &g1[..k + 2]].concat();
                let reference = vec![c1.clone(), g2.to_ascii_lowercase()];
                let dir = scratch::path("c04onestep");
                let _ = std::fs::remove_dir_all(&dir);
                let _ = std::fs::create_dir_all(&dir);
                std::fs::write(format!("{dir}/ref.fa"), scratch::fasta_named(&[("chrA".into(), reference[0].clone()), ("chrB".into(), reference[1].clone())])).unwrap();
                let mut s1 = g1.clone();
                s1[2 * k] = comp(s1[2 * k]);
                let mut dup = g1[k..2 * k + 1].to_vec();
                dup[(k - 1) / 2 + 1] = comp(dup[(k - 1) / 2 + 1]);
                let sa = vec![s1, g2.clone(), dup];
                let sb = vec![rc_str(&g1)];
                std::fs::write(format!("{dir}/zed.fa"), scratch::fasta(&sa)).unwrap();
                std::fs::write(format!("{dir}/abe.fa"), scratch::fasta(&sb)).unwrap();
                let names = vec!["zed".to_string(), "abe".to_string()];
                let t = Table::from_samples(k, true, &names, &[sa, sb]);
                let rf = RefSeq { path: format!("{dir}/ref.fa"), names: vec!["chrA".into(), "chrB".into()], seqs: reference.clone() };
                for (am, rm) in [(false, false), (true, false), (false, true), (true, true)] {
                    d.rep.evaluations += 1;
                    d.rep.nontrivial += 1;
                    d.rep.corner("cli_map_from_sequence_files");
                    let mut args = vec!["map", "ref.fa", "zed.fa", "abe.fa"];
                    if am {
                        args.push("--ambig-mask");
                    }
                    if rm {
                        args.push("--repeat-mask");
                    }
                    let o = cli::run(&args, &dir, None);
                    let (want, _) = model_map(&reference, &dicts_of(&t), k, true, am, rm);
                    let (nm, seqs) = real::parse_fasta(&o.stdout);
                    let want_cat: Vec<Vec<u8>> = want.iter().map(|a| a.concat()).collect();
                    if !want_vcf {
                        if o.code != 0 || nm != names || seqs != want_cat {
                            d.rep.violate(format!("cli map from sequence files am={am} rm={rm}"), format!("ska map ref.fa zed.fa abe.fa --ambig-mask={am} --repeat-mask={rm} (exit {}) differs from the model at k=17 (names {nm:?})", o.code), json!({"cli": true, "onestep": true, "am": am, "rm": rm}));
                        }
                    } else if o.code == 0 {
                        let mut va = args.clone();
                        va.extend(["-f", "vcf"]);
                        let v = cli::run(&va, &dir, None);
                        let alns: Option<Vec<Vec<Vec<u8>>>> = seqs.iter().map(|s| split_contigs(s, &reference)).collect();
                        let ok = match (vcf_canon(&v.stdout, &rf.names), alns) {
                            (Ok(got), Some(alns)) => v.code == 0 && got == model_vcf_canon(&rf, &nm, &alns),
                            _ => false,
                        };
                        if !ok {
                            d.rep.violate(format!("cli map vcf from sequence files am={am} rm={rm}"), "ska map -f vcf from sequence files does not carry the information of -f aln".into(), json!({"cli": true, "onestep": true, "vcf": true, "am": am, "rm": rm}));
                        }
                    }
                }
            }
        }
        // large references through the CLI at k=31: (a) contigs of 70 000 and 12 000 bases (positions beyond 2^16 within a contig and
        // in the whole; one sample identical to the reference, one with a SNP at 68 000 and one in contig 2), (b) 65 537 contigs of 33 bases (more than
        // 2^16 contigs) mapped against themselves. Letters come from a fixed generator; a draw in which some split
        // k-mer repeats is skipped (the model would then expect ambiguity codes: not the point here).
        for which in ["two contigs of 70000 and 12000 bases", "65537 contigs of 33 bases"] {
            idx += 1;
            if !ctx.mine(idx) {
                continue;
            }
            let k = 31usize;
            let mut x = crate::enumerate::splitmix(ctx.seed.wrapping_add(40_404));
            let mut draw = |n: usize| -> Vec<u8> {
                (0..n)
                    .map(|_| {
                        x = crate::enumerate::splitmix(x);
                        b"ACGT"[(x >> 33) as usize & 3]
                    })
                    .collect()
            };
            let reference: Vec<Vec<u8>> = if which.starts_with("two") { vec![draw(70_000), draw(12_000)] } else { (0..65_537).map(|_| draw(33)).collect() };
            let mut snp = reference.clone();
            let (sc, sp) = if which.starts_with("two") { (0usize, 68_000usize) } else { (65_536usize, 16usize) };
            snp[sc][sp] = comp(snp[sc][sp]);
            if which.starts_with("two") {
                snp[1][6_000] = comp(snp[1][6_000]);
            }
            let names = vec!["same".to_string(), "snp".to_string()];
            let t = Table::from_samples(k, true, &names, &[reference.clone(), snp.clone()]);
            if t.has_ambig() {
                d.rep.corner("large_reference_draw_with_repeated_split_kmer_(skipped)");
                continue;
            }
            let dir = scratch::path("c04big");
            let _ = std::fs::remove_dir_all(&dir);
            let _ = std::fs::create_dir_all(&dir);
            let named: Vec<(String, Vec<u8>)> = reference.iter().enumerate().map(|(i, s)| (format!("c{i}"), s.clone())).collect();
            std::fs::write(format!("{dir}/ref.fa"), scratch::fasta_named(&named)).unwrap();
            std::fs::write(format!("{dir}/same.fa"), scratch::fasta(&reference)).unwrap();
            std::fs::write(format!("{dir}/snp.fa"), scratch::fasta(&snp)).unwrap();
            let b = cli::run(&["build", "-k", "31", "-o", "x", "same.fa", "snp.fa"], &dir, None);
            let rf = RefSeq { path: format!("{dir}/ref.fa"), names: (0..reference.len()).map(|i| format!("c{i}")).collect(), seqs: reference.clone() };
            let (want, _) = model_map(&reference, &dicts_of(&t), k, true, false, false);
            let want_cat: Vec<Vec<u8>> = want.iter().map(|a| a.concat()).collect();
            d.rep.evaluations += 1;
            d.rep.nontrivial += 1;
            d.rep.corner("cli_map_large_reference");
            let o = cli::run(&["map", "ref.fa", "x.skf"], &dir, None);
            let (nm, seqs) = real::parse_fasta(&o.stdout);
            if !want_vcf {
                if b.code != 0 || o.code != 0 || nm != names || seqs != want_cat {
                    let first = seqs.iter().zip(&want_cat).enumerate().find_map(|(i, (a, w))| a.iter().zip(w.iter()).position(|(p, q)| p != q).map(|p| (i, p)));
                    d.rep.violate(format!("cli map {which}"), format!("ska map on {which} (exit {} / {}): differs from the model, first difference (sample, column) {:?}, lengths {:?} vs {:?}", b.code, o.code, first, seqs.iter().map(|s| s.len()).collect::<Vec<_>>(), want_cat.iter().map(|s| s.len()).collect::<Vec<_>>()), json!({"cli": true, "large": which}));
                }
            } else if o.code == 0 {
                let v = cli::run(&["map", "ref.fa", "x.skf", "-f", "vcf"], &dir, None);
                let alns: Option<Vec<Vec<Vec<u8>>>> = seqs.iter().map(|s| split_contigs(s, &reference)).collect();
                let ok = match (vcf_canon(&v.stdout, &rf.names), alns) {
                    (Ok(got), Some(alns)) => v.code == 0 && got == model_vcf_canon(&rf, &nm, &alns),
                    _ => false,
                };
                if !ok {
                    d.rep.violate(format!("cli map vcf {which}"), format!("ska map -f vcf on {which} (exit {}) does not carry the information of ska map -f aln", v.code), json!({"cli": true, "vcf": true, "large": which}));
                }
            }
        }
        d.rep.completed.push("CLI map".into());
    }
    d.rep.states = d.rep.evaluations;
    d.rep.traces_validated = d.rep.nontrivial;
    d.rep.sample(json!({"family": "A", "reference": ["ACGTTGCAAT", "ACG", "TTGACCATGGA"], "k": 5, "matched_centres_sample0": "every subset", "flags": "all four on every fifth pattern"}));
    d.rep.sample(json!({"family": "B", "reference": "every string over ACGTN up to the tier's length, mapped against itself"}));
}
