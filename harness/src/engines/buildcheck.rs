//! Shared by C01/C02/C16: build one sample from records through the real `SkaDict::new`
//! and compare with the model.

use std::collections::BTreeMap;

use crate::explore::Report;
use crate::real;
use crate::refmodel::*;
use crate::scratch;

pub fn real_build(records: &[Vec<u8>], k: usize, rc: bool, wide: bool, fname: &str) -> Result<BTreeMap<String, u8>, String> {
    let p = scratch::write(fname, &scratch::fasta(records));
    if wide {
        real::build_dict::<u128>(&p, k, rc)
    } else {
        real::build_dict::<u64>(&p, k, rc)
    }
}

pub fn real_build_file(path: &str, k: usize, rc: bool, wide: bool) -> Result<BTreeMap<String, u8>, String> {
    if wide {
        real::build_dict::<u128>(path, k, rc)
    } else {
        real::build_dict::<u64>(path, k, rc)
    }
}

pub fn show(d: &BTreeMap<String, u8>) -> String {
    let v: Vec<String> = d.iter().take(12).map(|(a, b)| format!("{a}:{}", *b as char)).collect();
    format!("{{{}{}}}", v.join(","), if d.len() > 12 { ",…" } else { "" })
}

/// Compare a real build result with the model's. An input without any k-mer may be refused or give an empty table.
pub fn agree(got: &Result<BTreeMap<String, u8>, String>, want: &BTreeMap<String, u8>) -> Result<(), String> {
    match got {
        Ok(g) => {
            if g == want {
                Ok(())
            } else {
                let missing: Vec<&String> = want.keys().filter(|a| !g.contains_key(*a)).take(3).collect();
                let extra: Vec<&String> = g.keys().filter(|a| !want.contains_key(*a)).take(3).collect();
                let wrong: Vec<String> = want
                    .iter()
                    .filter(|(a, b)| g.get(*a).map_or(false, |x| x != *b))
                    .take(3)
                    .map(|(a, b)| format!("{a}: got {} want {}", g[a] as char, *b as char))
                    .collect();
                Err(format!("built {} entries, expected {}; missing {:?} extra {:?} wrong {:?}", g.len(), want.len(), missing, extra, wrong))
            }
        }
        Err(e) => {
            if want.is_empty() {
                Ok(())
            } else {
                Err(format!("build refused ({}) although {} split k-mers are expected", e.chars().take(80).collect::<String>(), want.len()))
            }
        }
    }
}

/// Structural corners of an input (for the vacuity guards)
pub fn corners(rep: &mut Report, records: &[Vec<u8>], k: usize, rc: bool) {
    let h = (k - 1) / 2;
    for r in records {
        let u = upper(r);
        let ws = windows(&u, k);
        if r.len() == k && !ws.is_empty() {
            rep.corner("record_len_eq_k");
        }
        if let Some((p, _)) = ws.last() {
            if p + h + 1 == u.len() {
                rep.corner("window_ends_at_record_end");
                if u.len() > k && !matches!(u[u.len() - k - 1], b'A' | b'C' | b'G' | b'T') {
                    rep.corner("N_exactly_k_plus_1_before_end");
                }
            }
        }
        if u.iter().any(|c| *c == b'N') && !ws.is_empty() {
            rep.corner("N_with_kmers");
        }
        if rc {
            for (_, w) in &ws {
                if canon(w, true).1.count_ones() == 2 {
                    rep.corner("self_rc_arms");
                    break;
                }
            }
        }
    }
}
