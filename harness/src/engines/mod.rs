//! One engine per property.
use crate::explore::{Ctx, Meta, Report, Tier};

pub mod buildcheck;
pub mod c01;
pub mod c02;
pub mod c03;
pub mod c04;
pub mod c06;
pub mod c07;
pub mod c08;
pub mod c09;
pub mod c10;
pub mod c11;
pub mod c11_sched;
pub mod lo;
pub mod c12;
pub mod c13;
pub mod c14;
pub mod c16;
pub mod c17;
pub mod c18;
pub mod c19;
pub mod c20;
pub mod c15;

pub struct Plan {
    /// engine wall-clock cap in seconds
    pub cap_s: f64,
    /// number of worker processes (1 = run inside a single worker)
    pub shards: usize,
    /// needs the deterministic hash seed shim
    pub seeded: bool,
}

pub fn meta(id: &str) -> Option<Meta> {
    Some(match id {
        "C01" => c01::meta(),
        "C02" => c02::meta(),
        "C03" => c03::meta(),
        "C04" => c04::meta("C04"),
        "C05" => c04::meta("C05"),
        "C06" => c06::meta(),
        "C07" => c07::meta(),
        "C08" => c08::meta(),
        "C09" => c09::meta(),
        "C10" => c10::meta(),
        "C11" => c11::meta(),
        "C12" => c12::meta(),
        "C13" => c13::meta(),
        "C14" => c14::meta(),
        "C15" => c15::meta(),
        "C16" => c16::meta(),
        "C17" => c17::meta(),
        "C18" => c18::meta(),
        "C19" => c19::meta(),
        "C20" => c20::meta(),
        _ => return None,
    })
}

pub fn plan(id: &str, tier: Tier) -> Plan {
    let n = crate::explore::ncpu();
    let over: Option<f64> = std::env::var("VERIF_CAP_OVERRIDE").ok().and_then(|s| s.parse().ok());
    let q = |a: f64, b: f64| over.unwrap_or(if tier.thorough() { b } else { a });
    match id {
        "C15" => Plan { cap_s: q(40.0, 600.0), shards: n, seeded: false },
        "C17" | "C09" | "C12" => Plan { cap_s: q(55.0, 900.0), shards: n, seeded: false },
        "C02" | "C03" | "C04" | "C05" | "C10" => Plan { cap_s: q(40.0, 900.0), shards: n, seeded: false },
        _ => Plan { cap_s: q(40.0, 600.0), shards: n, seeded: false },
    }
}

/// Executed inside a worker process (single-threaded)
pub fn run_worker(id: &str, ctx: &Ctx, rep: &mut Report) {
    match id {
        "C01" => c01::run(ctx, rep),
        "C02" => c02::run(ctx, rep),
        "C03" => c03::run(ctx, rep),
        "C04" => c04::run(ctx, rep, "C04"),
        "C05" => c04::run(ctx, rep, "C05"),
        "C06" => c06::run(ctx, rep),
        "C07" => c07::run(ctx, rep),
        "C08" => c08::run(ctx, rep),
        "C09" => c09::run(ctx, rep),
        "C10" => c10::run(ctx, rep),
        "C11" => {
            if ctx.part == "sched" {
                c11_sched::run(ctx, rep)
            } else {
                c11::run_sweep(ctx, rep)
            }
        }
        "C12" => c12::run(ctx, rep),
        "C13" => c13::run(ctx, rep),
        "C14" => c14::run(ctx, rep),
        "C15" => c15::run(ctx, rep),
        "C16" => c16::run(ctx, rep),
        "C17" => c17::run(ctx, rep),
        "C18" => c18::run(ctx, rep),
        "C19" => c19::run(ctx, rep),
        "C20" => c20::run(ctx, rep),
        _ => rep.machinery(format!("no engine for {id}")),
    }
}

/// Parent-side driver: default is "shard over workers and merge"; engines with several phases override.
pub fn run_parent(id: &str, tier: Tier, seed: u64) -> Report {
    let p = plan(id, tier);
    // workers run with hash seeds owned by the shim (derived from the run's seed): the iteration order of the real
    // code's hash maps inside the harness process — e.g. the row order of an array forged in memory — is then the same
    // in the run and in the replay of one of its cases
    let own = crate::cli::shim();
    if own.is_some() {
        std::env::set_var("VERIF_HASH_SEED", seed.to_string());
    }
    let own = own.as_deref();
    match id {
        "C19" => {
            // subject files are produced once so that every shard damages the same bytes
            let dir = crate::scratch::path("c19subjects");
            c19::prepare(tier, seed, &dir);
            crate::explore::run_sharded(id, &dir, tier, seed, p.cap_s, p.shards, own)
        }
        "C11" => {
            let mut rep = crate::explore::run_sharded(id, "sweep", tier, seed, p.cap_s, p.shards, own);
            // schedule part under owned hash seeds
            let shim = crate::cli::shim();
            let nseeds = if tier.thorough() { 4 } else { 2 };
            for hs in 0..nseeds {
                std::env::set_var("VERIF_HASH_SEED", (seed + hs).to_string());
                let r = crate::explore::run_sharded(id, "sched", tier, seed, p.cap_s, p.shards, shim.as_deref());
                rep.merge(r);
            }
            rep.completed.extend(std::mem::take(&mut rep.completed_counts).into_keys());
            rep
        }
        "C18" => {
            let mut rep = crate::explore::run_sharded(id, "", tier, seed, p.cap_s, p.shards, own);
            c18::finish(&mut rep);
            rep
        }
        _ => crate::explore::run_sharded(id, "", tier, seed, p.cap_s, p.shards, own),
    }
}

/// Run a CLI family a second time with the dev-profile build of the CLI (overflow checks on), if one was built.
pub fn both_profiles<F: FnMut(&mut Report)>(rep: &mut Report, mut f: F) {
    f(rep);
    if crate::cli::set_debug_profile(true) {
        f(rep);
        crate::cli::set_debug_profile(false);
        rep.corner("cli_family_repeated_with_overflow_checked_build");
    } else {
        rep.corner("no_overflow_checked_build_available");
    }
}

/// Re-execute one recorded case; Ok(Some(msg)) = still violates
pub fn replay(id: &str, case: &serde_json::Value) -> Result<Option<String>, String> {
    if case.get("profile").and_then(|p| p.as_str()) == Some("overflow-checked") && !crate::cli::debug_profile() {
        if !crate::cli::set_debug_profile(true) {
            return Err("the case needs the dev-profile CLI build (./check --setup)".into());
        }
        let r = replay(id, case);
        crate::cli::set_debug_profile(false);
        return r;
    }
    match id {
        "C01" => c01::replay(case),
        "C02" => c02::replay(case),
        "C03" => c03::replay(case),
        "C04" => c04::replay("C04", case),
        "C05" => c04::replay("C05", case),
        "C06" => c06::replay(case),
        "C09" => c09::replay(case),
        "C12" => c12::replay(case),
        "C13" => c13::replay(case),
        "C14" => c14::replay(case),
        "C16" => c16::replay(case),
        "C17" => c17::replay(case),
        "C18" => c18::replay(case),
        "C19" => c19::replay(case),
        "C20" => c20::replay(case),
        _ => Err(format!("engine {id} has no single-case replay; rerun the check")),
    }
}
