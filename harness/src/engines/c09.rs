//! C09 — .skf persistence is lossless and independent of the integer width chosen.
//! Driven through the CLI (the width dispatch lives in `ska::main`).

use serde_json::{json, Value};
use std::collections::BTreeMap;

use super::c01::ALL_K;
use crate::cli;
use crate::enumerate::{repeat_free, splitmix};
use crate::explore::{Ctx, Meta, Report};
use crate::mirror::{pack, FileState};
use crate::observe::{model_vcf_canon, vcf_canon, RefSeq};
use crate::real;
use crate::refmodel::*;
use crate::samples;
use crate::scratch;

pub fn meta() -> Meta {
    Meta {
        id: "C09",
        level: "exploration",
        rule: "for all 30 valid k x both strand modes x input families {generic pool; all split k-mers fit in 64 bits (k>=33: records of length k starting with k-33 A's, verified by the model to be < 2^64); mixed fitting + non-fitting samples; a 3 kb genome (thousands of k-mers); at k=17 300 samples; at k in {31,33} (both strands) two diverged 70 kb genomes (more than 2^17 rows)}: `ska build` then every subcommand on the saved file through the CLI — nk --full-info (incl. k_bits), align (plain and with every flag), map aln+vcf, distance (plain and with its flags), weed (sequence file, --reverse, and the filter flags), delete, merge with a second file in both orders (fitting/non-fitting in both orders; a second file reduced by a filter; a second file emptied of all k-mers) and the empty-after-filter file — each compared with what the model derives from the source sequences; every stored field is read back with the independent mirror decoder. Non-trivial = a CLI command on a non-empty file; distinct outcomes = distinct expected outputs. At k in {5,7,17,31,33,35,63} (thorough: every k) the whole family is run a second time through the dev-profile build of the CLI (debug assertions and arithmetic overflow checks on): same verdict required. The saved file is additionally read under names that do not end in .skf (`cleaned`, `x.skf.bak`) by nk, align, map, distance, merge and delete, and align/map/distance are run with -o: same results.".into(),
        assumptions: vec!["the model stands in for 'the in-memory data it was saved from' (their agreement is C01/C06/C07/C08/C13/C14's subject)".into()],
        exhaustive_when_uncapped: true,
    }
}

struct Fam {
    name: &'static str,
    samples: Vec<Vec<Vec<u8>>>,
    /// second file for merges
    other: Vec<Vec<Vec<u8>>>,
}

fn fitting_record(k: usize, salt: u64) -> Vec<u8> {
    // k-33 leading A's, then 33 letters chosen so that nothing is self-complementary
    let lead = k.saturating_sub(33);
    let mut r = vec![b'A'; lead];
    let tail_len = k - lead;
    let mut x = splitmix(salt);
    for _ in 0..tail_len {
        r.push(b"ACGT"[(x & 3) as usize]);
        x = splitmix(x);
    }
    r
}

fn families(k: usize, seed: u64, thorough: bool) -> Vec<Fam> {
    let pool = samples::pool(k, seed);
    let mut v = vec![Fam { name: "generic", samples: vec![pool[0].clone(), pool[1].clone(), pool[3].clone()], other: vec![pool[2].clone(), pool[5].clone()] }];
    let fit = |base: u64| -> Vec<Vec<u8>> { (0..4).map(|i| fitting_record(k, base + i)).collect() };
    let mut f1 = fit(seed * 100 + 1);
    let mut f2 = f1.clone();
    // a middle-base difference between the two fitting samples
    let h = (k - 1) / 2;
    f2[0][h] = comp(f2[0][h]);
    f1.truncate(3);
    v.push(Fam { name: "fits-in-64-bits", samples: vec![f1.clone(), f2.clone()], other: vec![fit(seed * 100 + 50)] });
    v.push(Fam { name: "mixed fitting + non-fitting", samples: vec![f1, pool[0].clone()], other: vec![f2, pool[1].clone()] });
    let big = repeat_free(if thorough { 6000 } else { 3000 }, k.max(11), 0, seed + 5);
    let mut big2 = big.clone();
    big2[1500] = comp(big2[1500]);
    v.push(Fam { name: "3kb genome", samples: vec![vec![big], vec![big2]], other: vec![pool[0].clone()] });
    if k == 17 {
        // 300 samples (more than 2^8 sample columns): sample i carries substitutions at the positions of the set bits of i+1
        let g = repeat_free(12 * k, k, 0, seed + 7);
        let many: Vec<Vec<Vec<u8>>> = (0..300usize)
            .map(|i| {
                let mut s = g.clone();
                for bit in 0..9 {
                    if ((i + 1) >> bit) & 1 == 1 {
                        let p = k + bit * (k + 2);
                        s[p] = comp(s[p]);
                    }
                }
                vec![if i % 3 == 1 { rc_str(&s) } else { s }]
            })
            .collect();
        v.push(Fam { name: "300 samples", samples: many, other: vec![pool[0].clone(), pool[1].clone()] });
    }
    if [31usize, 33].contains(&k) {
        // more rows than 2^17: a 70 kb genome and a copy with a substitution every 23 bases of its first 40 kb, so that anything done in blocks of rows meets several blocks
        static HUGE: std::sync::OnceLock<Vec<u8>> = std::sync::OnceLock::new();
        let huge = HUGE.get_or_init(|| repeat_free(70_000, 15, 0, seed + 6)).clone();
        let mut huge2 = huge.clone();
        // diverged in the first 40 kb (about 80 000 rows present in one sample only), identical behind (constant rows)
        for p in (11..40_000).step_by(23) {
            huge2[p] = comp(huge2[p]);
        }
        v.push(Fam { name: "70kb genomes", samples: vec![vec![huge], vec![huge2]], other: vec![pool[0].clone()] });
    }
    v
}

fn write_samples(dir: &str, prefix: &str, samples: &[Vec<Vec<u8>>]) -> Vec<String> {
    samples
        .iter()
        .enumerate()
        .map(|(i, s)| {
            // names whose input order is not the sorted order
            let n = format!("{}{prefix}{i}", ["z", "m", "b", "r"][i % 4]);
            std::fs::write(format!("{dir}/{n}.fa"), scratch::fasta(s)).unwrap();
            n
        })
        .collect()
}

fn tail(o: &cli::CliOut) -> String {
    String::from_utf8_lossy(&o.stderr).lines().filter(|l| l.contains("panicked") || l.contains("rror") || l.contains("overflow")).take(2).collect::<Vec<_>>().join(" / ")
}

/// all checks for one (k, rc, family); returns list of (step, message)
fn check_family(rep: &mut Report, k: usize, rc: bool, fam: &Fam, dir: &str) -> Vec<(String, String)> {
    let mut bad: Vec<(String, String)> = Vec::new();
    let _ = std::fs::remove_dir_all(dir);
    std::fs::create_dir_all(dir).unwrap();
    let names = write_samples(dir, "a", &fam.samples);
    let onames = write_samples(dir, "b", &fam.other);
    let ss: Vec<&str> = if rc { vec![] } else { vec!["--single-strand"] };
    let ks = k.to_string();
    let build = |out: &str, ns: &[String]| {
        let mut a: Vec<String> = vec!["build".into(), "-k".into(), ks.clone(), "-o".into(), out.into()];
        a.extend(ns.iter().map(|n| format!("{n}.fa")));
        a.extend(ss.iter().map(|s| s.to_string()));
        let av: Vec<&str> = a.iter().map(|s| s.as_str()).collect();
        cli::run(&av, dir, None)
    };
    let t = Table::from_samples(k, rc, &names, &fam.samples);
    let to = Table::from_samples(k, rc, &onames, &fam.other);
    let want_bits = if k <= 31 { 64 } else { 128 };
    let mut step = |rep: &mut Report, name: &str, ok: Result<(), String>| {
        rep.evaluations += 1;
        rep.nontrivial += 1;
        if let Err(e) = ok {
            bad.push((name.to_string(), e));
        }
    };
    // older, longer output files are already there: build must replace them
    scratch::stale(&format!("{dir}/x.skf"));
    scratch::stale(&format!("{dir}/y.skf"));
    let b = build("x", &names);
    if b.code != 0 {
        step(rep, "build", Err(format!("ska build exit {} {}", b.code, tail(&b))));
        return bad;
    }
    let b2 = build("y", &onames);
    if b2.code != 0 {
        step(rep, "build", Err(format!("ska build (second file) exit {} {}", b2.code, tail(&b2))));
        return bad;
    }
    // stored fields through the mirror decoder
    let st = FileState::read(&format!("{dir}/x.skf"));
    step(
        rep,
        "stored fields",
        match &st {
            Ok(s) if s.table == t && s.k_bits == want_bits => Ok(()),
            Ok(s) => Err(format!("saved file holds k={} rc={} names={:?} {} rows k_bits={} (expected {} rows, k_bits={want_bits})", s.table.k, s.table.rc, s.table.names, s.table.rows.len(), s.k_bits, t.rows.len())),
            Err(e) => Err(format!("cannot decode saved file: {e}")),
        },
    );
    if fam.name.starts_with("fits") && k >= 33 {
        if t.rows.keys().all(|a| pack(a.as_bytes()) >> 64 == 0) {
            rep.corner("k>=33 file whose k-mers all fit in 64 bits");
        }
    }
    rep.outcome(&(k, rc, fam.name, t.rows.len()));
    // nk
    let o = cli::run(&["nk", "--full-info", "x.skf"], dir, None);
    step(rep, "nk", (|| {
        if o.code != 0 {
            return Err(format!("exit {} {}", o.code, tail(&o)));
        }
        let nk = cli::parse_nk(&o.stdout)?;
        if nk.k != k || nk.rc != rc || nk.names != names || nk.k_bits != want_bits {
            return Err(format!("header k={} rc={} k_bits={} names={:?}", nk.k, nk.rc, nk.k_bits, nk.names));
        }
        if nk.rows != t.rows || nk.sample_kmers != t.sample_counts() {
            return Err(format!("{} k-mers listed, model has {}", nk.rows.len(), t.rows.len()));
        }
        Ok(())
    })());
    // align
    let o = cli::run(&["align", "x.skf", "--min-freq", "0", "--filter", "no-filter"], dir, None);
    step(rep, "align", (|| {
        if o.code != 0 {
            return Err(format!("exit {} {}", o.code, tail(&o)));
        }
        let (nm, seqs) = real::parse_fasta(&o.stdout);
        if nm != names || real::columns_of(&seqs)? != t.columns() {
            return Err("alignment columns differ from the model".into());
        }
        Ok(())
    })());
    // the same with every flag of the align arm spelled out (argument plumbing of both width arms)
    let n = names.len();
    let flagsets: Vec<(Vec<&str>, FilterSpec)> = vec![
        (vec!["--filter", "no-const", "--ambig-mask"], FilterSpec { thr: 0, filt: Filt::NoConst, ambig_missing: false, mask: true, nogap: false }),
        (vec!["--filter", "no-ambig-or-const", "--no-gap-only-sites"], FilterSpec { thr: 0, filt: Filt::NoAmbigOrConst, ambig_missing: false, mask: false, nogap: true }),
        (vec!["--filter", "no-ambig", "--filter-ambig-as-missing"], FilterSpec { thr: 0, filt: Filt::NoAmbig, ambig_missing: true, mask: false, nogap: false }),
        (vec!["--filter", "no-filter", "--filter-ambig-as-missing"], FilterSpec { thr: n, filt: Filt::NoFilter, ambig_missing: true, mask: false, nogap: false }),
    ];
    for (flags, spec) in &flagsets {
        let freq = format!("{}", freq_for_threshold(spec.thr, n));
        let mut a = vec!["align", "x.skf", "--min-freq", &freq];
        a.extend(flags.iter());
        let o = cli::run(&a, dir, None);
        step(rep, &format!("align {}", flags.join(" ")), (|| {
            if o.code != 0 {
                return Err(format!("exit {} {}", o.code, tail(&o)));
            }
            let (nm, seqs) = real::parse_fasta(&o.stdout);
            if nm != names || real::columns_of(&seqs)? != t.filter(spec).columns() {
                return Err("alignment columns differ from the model".into());
            }
            Ok(())
        })());
        // the weed arm passes the same flags on (weed floors, so only exact products)
        if spec.thr == 0 || spec.thr == n {
            let wf = if spec.thr == 0 { "0" } else { "1" };
            let mut a = vec!["weed", "x.skf", "-o", "wf.skf", "--min-freq", wf];
            a.extend(flags.iter());
            scratch::stale(&format!("{dir}/wf.skf"));
            let o = cli::run(&a, dir, None);
            step(rep, &format!("weed {}", flags.join(" ")), (|| {
                if o.code != 0 {
                    return Err(format!("exit {} {}", o.code, tail(&o)));
                }
                let got = FileState::read(&format!("{dir}/wf.skf"))?;
                let noop = spec.thr == 0 && spec.filt == Filt::NoFilter && !spec.mask && !spec.nogap;
                let want = if noop { t.clone() } else { t.filter(spec) };
                if got.table != want {
                    return Err(format!("filtered file has {} rows, model {}", got.table.rows.len(), want.rows.len()));
                }
                Ok(())
            })());
        }
    }
    // map (reference = first record of the first sample, plus a short second contig)
    let refseqs = vec![fam.samples[0][0].clone(), b"ACGTA".to_vec()];
    std::fs::write(format!("{dir}/ref.fa"), scratch::fasta_named(&[("c0".into(), refseqs[0].clone()), ("c1".into(), refseqs[1].clone())])).unwrap();
    let rf = RefSeq { path: format!("{dir}/ref.fa"), names: vec!["c0".into(), "c1".into()], seqs: refseqs.clone() };
    let dicts: Vec<BTreeMap<String, u8>> = (0..names.len()).map(|i| t.rows.iter().filter(|(_, r)| r[i] != b'-').map(|(a, r)| (a.clone(), r[i])).collect()).collect();
    let (alns, any) = model_map(&refseqs, &dicts, k, rc, false, false);
    let o = cli::run(&["map", "ref.fa", "x.skf"], dir, None);
    step(rep, "map aln", (|| {
        if o.code != 0 {
            return if any { Err(format!("exit {} {}", o.code, tail(&o))) } else { Ok(()) };
        }
        let (nm, seqs) = real::parse_fasta(&o.stdout);
        let want: Vec<Vec<u8>> = alns.iter().map(|a| a.concat()).collect();
        if nm != names || seqs != want {
            return Err("mapped alignment differs from the model".into());
        }
        Ok(())
    })());
    let o = cli::run(&["map", "ref.fa", "x.skf", "-f", "vcf"], dir, None);
    step(rep, "map vcf", (|| {
        if o.code != 0 {
            return if any { Err(format!("exit {} {}", o.code, tail(&o))) } else { Ok(()) };
        }
        if vcf_canon(&o.stdout, &rf.names)? != model_vcf_canon(&rf, &names, &alns) {
            return Err("VCF differs from the model".into());
        }
        Ok(())
    })());
    // distance on tables WITH ambiguity codes: CLI on the saved file vs the same function in-process on the
    // in-memory table (both flag settings), so that the flag plumbing of both width arms is covered
    if t.has_ambig() && n >= 2 {
        for aa in [false, true] {
            let mut a = vec!["distance", "x.skf"];
            if aa {
                a.push("--allow-ambiguous");
            }
            let o = cli::run(&a, dir, None);
            let inproc = in_process_distance(&t, aa);
            step(rep, if aa { "distance --allow-ambiguous (ambiguous table)" } else { "distance (ambiguous table)" }, (|| {
                if o.code != 0 {
                    return Err(format!("exit {} {}", o.code, tail(&o)));
                }
                let got: Vec<String> = String::from_utf8_lossy(&o.stdout).lines().skip(1).map(|s| s.to_string()).collect();
                let want = inproc?;
                if got != want {
                    return Err(format!("CLI on the saved file prints {:?}, the in-memory table gives {:?}", got.first(), want.first()));
                }
                Ok(())
            })());
        }
    }
    // distance with its flags
    if !t.has_ambig() && n >= 2 {
        let f = format!("{}", freq_for_threshold(n - 1, n));
        let o = cli::run(&["distance", "x.skf", "--allow-ambiguous", "--min-freq", &f], dir, None);
        step(rep, "distance --allow-ambiguous --min-freq", (|| {
            if o.code != 0 {
                return Err(format!("exit {} {}", o.code, tail(&o)));
            }
            let got: Vec<String> = String::from_utf8_lossy(&o.stdout).lines().skip(1).map(|s| s.to_string()).collect();
            if got != t.distance_lines(n - 1) {
                return Err(format!("distance lines {:?} expected {:?}", got.first(), t.distance_lines(n - 1).first()));
            }
            Ok(())
        })());
    }
    // distance
    if !t.has_ambig() {
        let o = cli::run(&["distance", "x.skf"], dir, None);
        step(rep, "distance", (|| {
            if o.code != 0 {
                return Err(format!("exit {} {}", o.code, tail(&o)));
            }
            let got: Vec<String> = String::from_utf8_lossy(&o.stdout).lines().skip(1).map(|s| s.to_string()).collect();
            if got != t.distance_lines(0) {
                return Err(format!("distance lines {:?} expected {:?}", got.first(), t.distance_lines(0).first()));
            }
            Ok(())
        })());
    }
    // the same bytes under names that do not end in .skf (as written by `weed -o cleaned`, or renamed by the user):
    // every reading subcommand gives what it gives for x.skf
    for alias in ["cleaned", "x.skf.bak"] {
        let _ = std::fs::copy(format!("{dir}/x.skf"), format!("{dir}/{alias}"));
        let nk = cli::run(&["nk", "--full-info", alias], dir, None);
        step(rep, &format!("nk on a file named {alias}"), (|| {
            let n = cli::parse_nk(&nk.stdout).map_err(|_| format!("exit {} {}", nk.code, tail(&nk)))?;
            if n.names != names || n.kmers != t.rows.len() {
                return Err("differs from the table".into());
            }
            Ok(())
        })());
        for (what, a, b) in [("align", vec!["align", "x.skf", "--min-freq", "0", "--filter", "no-filter"], vec!["align", alias, "--min-freq", "0", "--filter", "no-filter"]), ("map", vec!["map", "ref.fa", "x.skf"], vec!["map", "ref.fa", alias]), ("distance", vec!["distance", "x.skf"], vec!["distance", alias])] {
            let (o1, o2) = (cli::run(&a, dir, None), cli::run(&b, dir, None));
            step(rep, &format!("{what} on a file named {alias}"), (|| {
                if o1.code != o2.code {
                    return Err(format!("exit {} for x.skf, exit {} for the same bytes named {alias}: {}", o1.code, o2.code, tail(&o2)));
                }
                if what == "align" {
                    let (n1, s1) = real::parse_fasta(&o1.stdout);
                    let (n2, s2) = real::parse_fasta(&o2.stdout);
                    let (mut c1, mut c2) = (real::columns_of(&s1).unwrap_or_default(), real::columns_of(&s2).unwrap_or_default());
                    c1.sort();
                    c2.sort();
                    if n1 != n2 || c1 != c2 {
                        return Err("alignment differs".into());
                    }
                } else if o1.stdout != o2.stdout {
                    return Err("output differs".into());
                }
                Ok(())
            })());
        }
    }
    // the same three reports written with -o: the file holds what the command prints otherwise, nothing on stdout
    for (what, base) in [("align", vec!["align", "x.skf", "--min-freq", "0", "--filter", "no-filter"]), ("map", vec!["map", "ref.fa", "x.skf"]), ("map vcf", vec!["map", "ref.fa", "x.skf", "-f", "vcf"]), ("distance", vec!["distance", "x.skf"])] {
        let plain = cli::run(&base, dir, None);
        let mut a = base.clone();
        a.extend(["-o", "report.out"]);
        scratch::stale(&format!("{dir}/report.out"));
        let o = cli::run(&a, dir, None);
        step(rep, &format!("{what} -o"), (|| {
            if plain.code != 0 {
                return if o.code != 0 { Ok(()) } else { Err(format!("{what} fails on stdout (exit {}) but succeeds with -o", plain.code)) };
            }
            if o.code != 0 {
                return Err(format!("exit {} {}", o.code, tail(&o)));
            }
            let file = std::fs::read(format!("{dir}/report.out")).map_err(|e| format!("no output file: {e}"))?;
            // sort lines: align's column order and hence its text is only defined up to column order, but a rerun of
            // the same file in the same process layout may differ; compare as the sets of (name, length) and bytes
            if what == "align" {
                let (n1, s1) = real::parse_fasta(&plain.stdout);
                let (n2, s2) = real::parse_fasta(&file);
                let (mut c1, mut c2) = (real::columns_of(&s1).unwrap_or_default(), real::columns_of(&s2).unwrap_or_default());
                c1.sort();
                c2.sort();
                if n1 != n2 || c1 != c2 {
                    return Err("alignment written with -o differs from the one printed".into());
                }
            } else if file != plain.stdout {
                return Err(format!("{what} -o writes {} bytes, stdout run prints {} bytes, contents differ", file.len(), plain.stdout.len()));
            }
            if !o.stdout.is_empty() && o.stdout == plain.stdout {
                return Err("report also printed on stdout although -o was given".into());
            }
            Ok(())
        })());
    }
    // weed (a window of the first record) and reverse weed
    let rec = &fam.samples[0][0];
    let wseq = rec[..usize::min(rec.len(), k + 2)].to_vec();
    std::fs::write(format!("{dir}/w.fa"), scratch::fasta(&[wseq.clone()])).unwrap();
    for reverse in [false, true] {
        let mut a = vec!["weed", "x.skf", "w.fa", "-o", "w.skf", "--min-freq", "0"];
        if reverse {
            a.push("--reverse");
        }
        scratch::stale(&format!("{dir}/w.skf"));
        let o = cli::run(&a, dir, None);
        step(rep, if reverse { "weed --reverse" } else { "weed" }, (|| {
            if o.code != 0 {
                return Err(format!("exit {} {}", o.code, tail(&o)));
            }
            let got = FileState::read(&format!("{dir}/w.skf"))?;
            if got.table != t.weed(&[wseq.clone()], reverse) {
                return Err(format!("{} rows kept, model keeps {}", got.table.rows.len(), t.weed(&[wseq.clone()], reverse).rows.len()));
            }
            Ok(())
        })());
    }
    // delete
    if names.len() >= 2 {
        scratch::stale(&format!("{dir}/d.skf"));
        let o = cli::run(&["delete", "-s", "x.skf", "-o", "d", &names[0]], dir, None);
        step(rep, "delete", (|| {
            if o.code != 0 {
                return Err(format!("exit {} {}", o.code, tail(&o)));
            }
            let got = FileState::read(&format!("{dir}/d.skf"))?;
            if got.table != t.delete(&[names[0].clone()]) {
                return Err("table after delete differs from the model".into());
            }
            Ok(())
        })());
    }
    // output prefixes that contain dots: the file must be <prefix>.skf and nothing else may be touched
    {
        let before = std::fs::read(format!("{dir}/x.skf")).unwrap_or_default();
        let mut a: Vec<String> = vec!["build".into(), "-k".into(), ks.clone(), "-o".into(), "out.v2".into()];
        a.extend(names.iter().map(|n| format!("{n}.fa")));
        a.extend(ss.iter().map(|s| s.to_string()));
        let av: Vec<&str> = a.iter().map(|s| s.as_str()).collect();
        let o1 = cli::run(&av, dir, None);
        let o2 = cli::run(&["merge", "x.skf", "y.skf", "-o", "x.plus_y"], dir, None);
        let o3 = if names.len() >= 2 { Some(cli::run(&["delete", "-s", "x.skf", "-o", "x.minus.first", &names[0]], dir, None)) } else { None };
        step(rep, "output prefix with dots", (|| {
            if o1.code != 0 || o2.code != 0 || o3.as_ref().map_or(false, |o| o.code != 0) {
                return Err("a command with a dotted -o prefix failed".into());
            }
            if FileState::read(&format!("{dir}/out.v2.skf"))?.table != t {
                return Err("build -o out.v2 did not write out.v2.skf with the built table".into());
            }
            if FileState::read(&format!("{dir}/x.plus_y.skf"))?.table != t.merge(&to) {
                return Err("merge -o x.plus_y did not write x.plus_y.skf with the merged table".into());
            }
            if o3.is_some() && FileState::read(&format!("{dir}/x.minus.first.skf"))?.table != t.delete(&[names[0].clone()]) {
                return Err("delete -o x.minus.first did not write x.minus.first.skf".into());
            }
            if std::fs::read(format!("{dir}/x.skf")).unwrap_or_default() != before {
                return Err("a command with a dotted -o prefix overwrote its input x.skf".into());
            }
            Ok(())
        })());
    }
    // merge in both orders, then nk on the merged file
    for (first, second, want) in [("x.skf", "y.skf", t.merge(&to)), ("y.skf", "x.skf", to.merge(&t))] {
        scratch::stale(&format!("{dir}/m.skf"));
        let o = cli::run(&["merge", first, second, "-o", "m"], dir, None);
        step(rep, &format!("merge {first} {second}"), (|| {
            if o.code != 0 {
                return Err(format!("exit {} {}", o.code, tail(&o)));
            }
            let got = FileState::read(&format!("{dir}/m.skf"))?;
            if got.table != want {
                return Err(format!("merged table has {} rows / names {:?}; model {} rows / {:?}", got.table.rows.len(), got.table.names, want.rows.len(), want.names));
            }
            let n = cli::run(&["nk", "--full-info", "m.skf"], dir, None);
            let nk = cli::parse_nk(&n.stdout)?;
            if n.code != 0 || nk.rows != want.rows {
                return Err("nk on the merged file differs from the model".into());
            }
            Ok(())
        })());
    }
    // writing subcommands reading the file under the suffix-less name `cleaned` (copied above)
    {
        scratch::stale(&format!("{dir}/ma.skf"));
        let o = cli::run(&["merge", "cleaned", "y.skf", "-o", "ma"], dir, None);
        step(rep, "merge cleaned y.skf", (|| {
            if o.code != 0 {
                return Err(format!("exit {} {}", o.code, tail(&o)));
            }
            if FileState::read(&format!("{dir}/ma.skf"))?.table != t.merge(&to) {
                return Err("merged table differs from the model".into());
            }
            Ok(())
        })());
        if names.len() >= 2 {
            scratch::stale(&format!("{dir}/da.skf"));
            let o = cli::run(&["delete", "-s", "cleaned", "-o", "da", &names[0]], dir, None);
            step(rep, "delete -s cleaned", (|| {
                if o.code != 0 {
                    return Err(format!("exit {} {}", o.code, tail(&o)));
                }
                if FileState::read(&format!("{dir}/da.skf"))?.table != t.delete(&[names[0].clone()]) {
                    return Err("table after delete differs from the model".into());
                }
                Ok(())
            })());
        }
    }
    // merging with a file that was emptied by a filter, in both orders
    let oe = cli::run(&["weed", "y.skf", "-o", "ey.skf", "--min-freq", "1", "--filter", "no-ambig", "--ambig-mask"], dir, None);
    let yfilt = to.filter(&FilterSpec { thr: onames.len(), filt: Filt::NoAmbig, ambig_missing: false, mask: true, nogap: false });
    if oe.code == 0 {
        let _ = std::fs::remove_file(format!("{dir}/unrelated.fa"));
        // and one emptied completely: keep only the k-mers of an unrelated sequence
        let unrelated = repeat_free(2 * k + 3, k, 0, 424242);
        std::fs::write(format!("{dir}/unrelated.fa"), scratch::fasta(&[unrelated.clone()])).unwrap();
        let oz = cli::run(&["weed", "y.skf", "unrelated.fa", "--reverse", "-o", "zy.skf", "--min-freq", "0"], dir, None);
        let yzero = to.weed(&[unrelated], true);
        let mut cands: Vec<(&str, Table)> = vec![("ey.skf", yfilt)];
        if oz.code == 0 {
            if yzero.rows.is_empty() {
                rep.corner("merge with a file that holds samples but no k-mers");
            }
            cands.push(("zy.skf", yzero));
        }
        for (fname, tab) in cands {
            for (first, second, want) in [("x.skf", fname, t.merge(&tab)), (fname, "x.skf", tab.merge(&t))] {
                scratch::stale(&format!("{dir}/m2.skf"));
                let o = cli::run(&["merge", first, second, "-o", "m2"], dir, None);
                step(rep, &format!("merge {first} {second}"), (|| {
                    if o.code != 0 {
                        return Err(format!("exit {} {}", o.code, tail(&o)));
                    }
                    let got = FileState::read(&format!("{dir}/m2.skf"))?;
                    if got.table != want {
                        return Err(format!("merged table has {} rows / names {:?}; model {} rows / {:?}", got.table.rows.len(), got.table.names, want.rows.len(), want.names));
                    }
                    Ok(())
                })());
            }
        }
    }
    // empty-after-filter file
    let o = cli::run(&["weed", "x.skf", "-o", "e.skf", "--min-freq", "1", "--filter", "no-ambig-or-const", "--no-gap-only-sites"], dir, None);
    if o.code == 0 {
        let f = FilterSpec { thr: names.len(), filt: Filt::NoAmbigOrConst, ambig_missing: false, mask: false, nogap: true };
        let want = t.filter(&f);
        step(rep, "weed-filter then nk", (|| {
            let got = FileState::read(&format!("{dir}/e.skf"))?;
            if got.table != want {
                return Err(format!("filtered file has {} rows, model {}", got.table.rows.len(), want.rows.len()));
            }
            let n = cli::run(&["nk", "e.skf"], dir, None);
            if n.code != 0 {
                return Err(format!("nk on the filtered file exit {}", n.code));
            }
            if want.rows.is_empty() {
                rep_corner_empty();
            }
            Ok(())
        })());
    }
    bad
}

fn rep_corner_empty() {}

/// `generic_modes::distance` on an in-memory array holding exactly this table (threads = 1)
fn in_process_distance(t: &Table, allow_ambiguous: bool) -> Result<Vec<String>, String> {
    std::env::set_var("RAYON_NUM_THREADS", "1");
    let out = scratch::path("c09_inproc.dist");
    let r = if t.k <= 31 {
        let mut a: ska::merge_ska_array::MergeSkaArray<u64> = real::forge_array(t);
        real::catch(|| ska::generic_modes::distance(&mut a, &Some(out.clone()), 0.0, !allow_ambiguous, 1))
    } else {
        let mut a: ska::merge_ska_array::MergeSkaArray<u128> = real::forge_array(t);
        real::catch(|| ska::generic_modes::distance(&mut a, &Some(out.clone()), 0.0, !allow_ambiguous, 1))
    };
    r?;
    let text = std::fs::read_to_string(&out).map_err(|e| format!("{e}"))?;
    Ok(text.lines().skip(1).map(|s| s.to_string()).collect())
}

pub fn replay(case: &Value) -> Result<Option<String>, String> {
    let k = case["k"].as_u64().ok_or("k")? as usize;
    let rc = case["rc"].as_bool().ok_or("rc")?;
    let fam = case["family"].as_str().ok_or("family")?;
    let seed = case["seed"].as_u64().unwrap_or(0);
    let thorough = case["thorough"].as_bool().unwrap_or(false);
    let mut rep = Report::default();
    for f in families(k, seed, thorough) {
        if f.name == fam {
            let bad = check_family(&mut rep, k, rc, &f, &scratch::path("c09"));
            return Ok(bad.iter().find(|(s, _)| Some(s.as_str()) == case["step"].as_str()).map(|(s, m)| format!("{s}: {m}")));
        }
    }
    Err("unknown family".into())
}

pub fn run(ctx: &Ctx, rep: &mut Report) {
    let thorough = ctx.tier.thorough();
    let ks: Vec<usize> = ALL_K.to_vec();
    let mut idx = 0u64;
    for k in ks {
        for rc in [true, false] {
            for fam in families(k, ctx.seed, thorough) {
                if (fam.name == "70kb genomes" || fam.name == "300 samples") && !rc {
                    continue;
                }
                idx += 1;
                if !ctx.mine(idx) {
                    continue;
                }
                if ctx.expired() {
                    rep.capped = true;
                    return;
                }
                let bad = check_family(rep, k, rc, &fam, &scratch::path("c09"));
                for (step, msg) in bad {
                    rep.violate(
                        format!("k={k} rc={rc} family={} step={step}", fam.name),
                        format!("k={k} rc={rc} {}: {step}: {msg}", fam.name),
                        json!({"k": k, "rc": rc, "family": fam.name, "step": step, "seed": ctx.seed, "thorough": thorough}),
                    );
                }
                rep.corner(fam.name);
                // the same family through the dev-profile build of the CLI (arithmetic overflow checks on) at the
                // extreme k, the default k and around the 64/128-bit boundary (thorough: every k)
                if (thorough || [5usize, 7, 17, 31, 33, 35, 63].contains(&k)) && fam.name != "70kb genomes" && fam.name != "300 samples" && cli::set_debug_profile(true) {
                    let bad = check_family(rep, k, rc, &fam, &scratch::path("c09"));
                    for (step, msg) in bad {
                        rep.violate(
                            format!("k={k} rc={rc} family={} step={step}", fam.name),
                            format!("k={k} rc={rc} {}: {step}: {msg}", fam.name),
                            json!({"k": k, "rc": rc, "family": fam.name, "step": step, "seed": ctx.seed, "thorough": thorough}),
                        );
                    }
                    cli::set_debug_profile(false);
                    rep.corner("family_repeated_with_overflow_checked_build");
                }
            }
        }
        rep.completed.push(format!("k={k}"));
    }
    rep.sample(json!({"k": 35, "rc": false, "family": "fits-in-64-bits", "records": [String::from_utf8_lossy(&fitting_record(35, 1)).to_string()], "commands": ["build", "nk --full-info", "align", "map", "map -f vcf", "distance", "weed", "weed --reverse", "delete", "merge x y", "merge y x", "weed-filter"]}));
}
