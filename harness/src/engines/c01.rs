//! C01 — build yields exactly the split k-mers of the input, IUPAC-merged per k-mer.

use serde_json::{json, Value};

use super::buildcheck::*;
use crate::cli;
use crate::enumerate::{repeat_free, strings};
use crate::explore::{Ctx, Meta, Report};
use crate::refmodel::*;
use crate::scratch;

pub const ALL_K: [usize; 30] = [5, 7, 9, 11, 13, 15, 17, 19, 21, 23, 25, 27, 29, 31, 33, 35, 37, 39, 41, 43, 45, 47, 49, 51, 53, 55, 57, 59, 61, 63];

pub fn meta() -> Meta {
    Meta {
        id: "C01",
        level: "exploration",
        rule: "bounded exhaustive enumeration of FASTA inputs, every one built through the real SkaDict::new and compared with the string/set reference model: (a) every single record over {A,C,G,T,N} up to the tier's length (quick 8, thorough 10) at k=5 and k=7 (quick tier at k=7: strands-merged/64-bit and single-strand/128-bit only); (b) for all 30 k, every prefix (k-1..k+3) of a repeat-free base string with N/n at every single position and every pair of positions, in three case patterns; (b3) for all 30 k a run of N of length 1, 2, k-1, k, k+1, k+2, 2k+1 between valid stretches, at the record start and end; (b2) for all 30 k two N with 0..k valid bases between them (or the record start in place of the first N) and k+2 valid bases behind; (c) forced collisions: every k-mer (k=5; a stride subset at k=7) followed by every combination of two further observations of the same arms with another middle base, as is or reverse-complemented; (d) every ordered triple from a pool of records of length below/at/above k; (e) k-mers on both sides of an N run: L+N+R for all k-mers L x representative R and representative L x all (k+1)-mers R (thorough: full product), so that any state carried across a restart is exercised; each in both strand modes and both integer widths where valid; plus CLI build+nk report comparison. Non-trivial = the model expects at least one split k-mer.".into(),
        assumptions: vec!["an input without any split k-mer may be refused or yield an empty table".into()],
        exhaustive_when_uncapped: true,
    }
}

fn case_json(records: &[Vec<u8>], k: usize, rc: bool, wide: bool) -> Value {
    json!({"records": records.iter().map(|r| String::from_utf8_lossy(r).to_string()).collect::<Vec<_>>(), "k": k, "rc": rc, "wide": wide})
}

fn key(records: &[Vec<u8>], k: usize, rc: bool, wide: bool) -> String {
    format!(
        "build k={k} rc={rc} bits={} records={}",
        if wide { 128 } else { 64 },
        records.iter().map(|r| String::from_utf8_lossy(r).to_string()).collect::<Vec<_>>().join("|")
    )
}

/// One case: returns whether it was non-trivial
pub fn check_case(rep: &mut Report, records: &[Vec<u8>], k: usize, rc: bool, wide: bool) {
    rep.evaluations += 1;
    let want = build(records, k, rc);
    let got = real_build(records, k, rc, wide, "c01.fa");
    if !want.is_empty() {
        rep.nontrivial += 1;
        rep.outcome(&want);
    }
    if let Err(e) = agree(&got, &want) {
        rep.violate(key(records, k, rc, wide), e, case_json(records, k, rc, wide));
    }
}

pub fn replay(case: &Value) -> Result<Option<String>, String> {
    if case.get("cli").is_some() {
        let recs: Vec<Vec<Vec<u8>>> = case["samples"].as_array().ok_or("samples")?.iter().map(|s| s.as_array().unwrap().iter().map(|r| r.as_str().unwrap().as_bytes().to_vec()).collect()).collect();
        return Ok(cli_case(&recs, case["k"].as_u64().unwrap() as usize, case["rc"].as_bool().unwrap()).err());
    }
    if case.get("cli_pair").is_some() {
        let f = |n: &str| -> Vec<Vec<u8>> { case[n].as_array().map(|a| a.iter().map(|r| r.as_str().unwrap_or("").as_bytes().to_vec()).collect()).unwrap_or_default() };
        return Ok(cli_pair_case(&f("file1"), &f("file2"), case["k"].as_u64().ok_or("k")? as usize, case["rc"].as_bool().ok_or("rc")?).err());
    }
    if case.get("pair").is_some() {
        let f = |n: &str| -> Vec<Vec<u8>> { case[n].as_array().map(|a| a.iter().map(|r| r.as_str().unwrap_or("").as_bytes().to_vec()).collect()).unwrap_or_default() };
        let (f1, f2) = (f("file1"), f("file2"));
        let (k, rc, wide) = (case["k"].as_u64().ok_or("k")? as usize, case["rc"].as_bool().ok_or("rc")?, case["wide"].as_bool().ok_or("wide")?);
        let both: Vec<Vec<u8>> = f1.iter().chain(f2.iter()).cloned().collect();
        let want = build(&both, k, rc);
        let p1 = scratch::write("c01_f1.fa", &scratch::fasta(&f1));
        let p2 = scratch::write("c01_f2.fa", &scratch::fasta(&f2));
        let got = if wide { crate::real::build_dict_pair::<u128>(&p1, &p2, k, rc) } else { crate::real::build_dict_pair::<u64>(&p1, &p2, k, rc) };
        return Ok(agree(&got, &want).err().map(|e| format!("one sample built from two files: {e}")));
    }
    let records: Vec<Vec<u8>> = case["records"].as_array().ok_or("records")?.iter().map(|r| r.as_str().unwrap().as_bytes().to_vec()).collect();
    let k = case["k"].as_u64().ok_or("k")? as usize;
    let rc = case["rc"].as_bool().ok_or("rc")?;
    let wide = case["wide"].as_bool().ok_or("wide")?;
    let want = build(&records, k, rc);
    let got = real_build(&records, k, rc, wide, "c01.fa");
    Ok(agree(&got, &want).err())
}

fn widths(k: usize) -> &'static [bool] {
    if k <= 31 {
        &[false, true]
    } else {
        &[true]
    }
}

fn case_patterns(s: &[u8]) -> Vec<Vec<u8>> {
    let lower: Vec<u8> = s.iter().map(|c| c.to_ascii_lowercase()).collect();
    let alt: Vec<u8> = s.iter().enumerate().map(|(i, c)| if i % 2 == 0 { c.to_ascii_lowercase() } else { *c }).collect();
    vec![s.to_vec(), lower, alt]
}

/// CLI build + nk --full-info of several samples against the model's rendering
pub fn cli_case(samples: &[Vec<Vec<u8>>], k: usize, rc: bool) -> Result<(), String> {
    let dir = scratch::path("c01cli");
    let _ = std::fs::remove_dir_all(&dir);
    std::fs::create_dir_all(&dir).unwrap();
    let mut args: Vec<String> = vec!["build".into(), "-k".into(), k.to_string(), "-o".into(), "out".into()];
    let mut names = Vec::new();
    for (i, recs) in samples.iter().enumerate() {
        let name = format!("smp{i}");
        std::fs::write(format!("{dir}/{name}.fa"), scratch::fasta(recs)).unwrap();
        args.push(format!("{name}.fa"));
        names.push(name);
    }
    if !rc {
        args.push("--single-strand".into());
    }
    let a: Vec<&str> = args.iter().map(|s| s.as_str()).collect();
    let t = Table::from_samples(k, rc, &names, samples);
    let any_empty = samples.iter().any(|s| build(s, k, rc).is_empty());
    // an older, longer out.skf is already there: build must replace it
    scratch::stale(&format!("{dir}/out.skf"));
    let b = cli::run(&a, &dir, None);
    if b.code != 0 {
        return if any_empty { Ok(()) } else { Err(format!("ska build failed: {}", String::from_utf8_lossy(&b.stderr).chars().rev().take(200).collect::<String>().chars().rev().collect::<String>())) };
    }
    let n = cli::run(&["nk", "--full-info", "out.skf"], &dir, None);
    if n.code != 0 {
        return Err("ska nk failed on a freshly built file".into());
    }
    let nk = cli::parse_nk(&n.stdout)?;
    let want_bits = if k <= 31 { 64 } else { 128 };
    if nk.k != k || nk.rc != rc || nk.names != names || nk.samples != names.len() {
        return Err(format!("nk header: k={} rc={} names={:?} samples={}", nk.k, nk.rc, nk.names, nk.samples));
    }
    if nk.k_bits != want_bits {
        return Err(format!("nk reports k_bits={} for k={k}", nk.k_bits));
    }
    if nk.rows != t.rows || nk.row_lines != t.rows.len() {
        return Err(format!("nk --full-info lists {} k-mers ({} lines), model has {}", nk.rows.len(), nk.row_lines, t.rows.len()));
    }
    if nk.kmers != t.rows.len() || nk.sample_kmers != t.sample_counts() {
        return Err(format!("nk counts: k-mers={} sample_kmers={:?}, model {} {:?}", nk.kmers, nk.sample_kmers, t.rows.len(), t.sample_counts()));
    }
    Ok(())
}

/// `ska build -f list` where the list names two files for the one sample (name, file1, file2): against the model of the
/// concatenated records, through `ska nk --full-info`.
pub fn cli_pair_case(f1: &[Vec<u8>], f2: &[Vec<u8>], k: usize, rc: bool) -> Result<(), String> {
    let dir = scratch::path("c01clip");
    let _ = std::fs::remove_dir_all(&dir);
    std::fs::create_dir_all(&dir).unwrap();
    std::fs::write(format!("{dir}/chrom.fa"), scratch::fasta(f1)).unwrap();
    std::fs::write(format!("{dir}/plasmid.fa"), scratch::fasta(f2)).unwrap();
    std::fs::write(format!("{dir}/list.txt"), "both\tchrom.fa\tplasmid.fa\n").unwrap();
    let ks = k.to_string();
    let mut a = vec!["build", "-k", &ks, "-o", "out", "-f", "list.txt"];
    if !rc {
        a.push("--single-strand");
    }
    let both: Vec<Vec<u8>> = f1.iter().chain(f2.iter()).cloned().collect();
    let t = Table::from_samples(k, rc, &["both".to_string()], &[both]);
    let b = cli::run(&a, &dir, None);
    if b.code != 0 {
        return Err(format!("ska build -f (two files for one sample) failed: {}", String::from_utf8_lossy(&b.stderr).chars().rev().take(200).collect::<String>().chars().rev().collect::<String>()));
    }
    let n = cli::run(&["nk", "--full-info", "out.skf"], &dir, None);
    if n.code != 0 {
        return Err("ska nk failed on a freshly built file".into());
    }
    let nk = cli::parse_nk(&n.stdout)?;
    if nk.names != vec!["both".to_string()] || nk.rows != t.rows {
        return Err(format!("two files for one sample: nk lists names {:?} and {} k-mers, the model of both files together has {} (or middle bases differ)", nk.names, nk.rows.len(), t.rows.len()));
    }
    Ok(())
}

pub fn run(ctx: &Ctx, rep: &mut Report) {
    let thorough = ctx.tier.thorough();
    let mut idx: u64 = 0;
    let mut capped = false;
    let alphabet = b"ACGTN";

    // (a) small-k complete
    for (k, maxlen) in [(5usize, if thorough { 10 } else { 8 }), (7usize, if thorough { 10 } else { 8 })] {
        for len in 1..=maxlen {
            strings(alphabet, len, |s| {
                for rc in [true, false] {
                    for wide in [false, true] {
                        // quick tier at k=7: the two diagonal configurations only
                        if !thorough && k == 7 && (rc == wide) {
                            continue;
                        }
                        idx += 1;
                        if !ctx.mine(idx) {
                            continue;
                        }
                        let recs = [s.to_vec()];
                        check_case(rep, &recs, k, rc, wide);
                        if rep.evaluations % 8192 == 1 {
                            corners(rep, &recs, k, rc);
                            if rep.evaluations % 65536 == 1 {
                                rep.sample(case_json(&recs, k, rc, wide));
                            }
                        }
                    }
                }
                if idx % 4096 == 0 && ctx.expired() {
                    capped = true;
                    return false;
                }
                true
            });
            if capped {
                break;
            }
            rep.completed.push(format!("(a) k={k} all records of length {len}"));
        }
    }

    // (b) every k: prefixes of a repeat-free base string with N at single positions and pairs
    if !capped {
        'kloop: for k in ALL_K {
            let base = repeat_free(k + 3, k, 0, ctx.seed);
            for plen in (k - 1)..=(k + 3) {
                let prefix = &base[..plen];
                // positions: none, singles, pairs
                let mut posns: Vec<Vec<usize>> = vec![vec![]];
                for i in 0..plen {
                    posns.push(vec![i]);
                }
                for i in 0..plen {
                    for j in (i + 1)..plen {
                        posns.push(vec![i, j]);
                    }
                }
                for ps in posns {
                    for nchar in [b'N', b'n'] {
                        if ps.is_empty() && nchar == b'n' {
                            continue;
                        }
                        for (ci, pat) in case_patterns(prefix).into_iter().enumerate() {
                            // quick tier: pairs only in upper case with 'N'
                            if !thorough && ps.len() == 2 && (ci != 0 || nchar == b'n') {
                                continue;
                            }
                            let mut s = pat;
                            for p in &ps {
                                s[*p] = nchar;
                            }
                            for rc in [true, false] {
                                for wide in widths(k) {
                                    idx += 1;
                                    if !ctx.mine(idx) {
                                        continue;
                                    }
                                    let recs = [s.clone()];
                                    check_case(rep, &recs, k, rc, *wide);
                                    if rep.evaluations % 512 == 1 {
                                        corners(rep, &recs, k, rc);
                                    }
                                    if rep.evaluations % 50000 == 7 {
                                        rep.sample(case_json(&recs, k, rc, *wide));
                                    }
                                }
                            }
                        }
                    }
                }
                if ctx.expired() {
                    capped = true;
                    break 'kloop;
                }
            }
            rep.completed.push(format!("(b) k={k}"));
        }
    }

    // (b2) every k: two N with d = 0..k valid bases between them and k+2 valid bases behind the second (a window
    // restarted twice in a row, the first restart leaving a partly filled window); the same with the record start in
    // place of the first N
    if !capped {
        for k in ALL_K {
            let base = repeat_free(2 * k + 3, k, 0, ctx.seed + 2);
            for d in 0..=k {
                for lead in [&b"N"[..], &b""[..], &b"nN"[..]] {
                    idx += 1;
                    if !ctx.mine(idx) {
                        continue;
                    }
                    let s: Vec<u8> = [lead, &base[..d], &b"N"[..], &base[d..d + k + 2]].concat();
                    for rc in [true, false] {
                        for wide in widths(k) {
                            let recs = [s.clone()];
                            check_case(rep, &recs, k, rc, *wide);
                        }
                    }
                    rep.corner("two_restarts_in_a_row");
                }
            }
            rep.completed.push(format!("(b2) k={k}"));
        }
    }

    // (b3) every k: a run of N of length 1, 2, k-1, k, k+1, k+2, 2k+1 between two stretches of k+1 valid bases, and at the
    // record start
    if !capped {
        for k in ALL_K {
            let base = repeat_free(2 * k + 3, k, 0, ctx.seed + 3);
            for r in [1usize, 2, k - 1, k, k + 1, k + 2, 2 * k + 1] {
                idx += 1;
                if !ctx.mine(idx) {
                    continue;
                }
                let run: Vec<u8> = (0..r).map(|i| if i % 3 == 2 { b'n' } else { b'N' }).collect();
                for s in [[&base[..k + 1], run.as_slice(), &base[k + 1..]].concat(), [run.as_slice(), &base[..k + 2]].concat(), [&base[..k + 2], run.as_slice()].concat()] {
                    for rc in [true, false] {
                        for wide in widths(k) {
                            let recs = [s.clone()];
                            check_case(rep, &recs, k, rc, *wide);
                        }
                    }
                }
                rep.corner("long_run_of_N");
            }
            rep.completed.push(format!("(b3) k={k}"));
        }
    }

    // (c) forced collisions
    if !capped {
        'c: for k in [5usize, 7] {
            let h = (k - 1) / 2;
            let stride = if k == 7 && !thorough { 4 } else { 1 };
            let mut n = 0u64;
            strings(b"ACGT", k, |w| {
                n += 1;
                if n % stride != 0 {
                    return true;
                }
                let others: Vec<u8> = b"ACGT".iter().copied().filter(|m| *m != w[h]).collect();
                let mut variants: Vec<Option<Vec<u8>>> = vec![None];
                for m in &others {
                    let mut v = w.to_vec();
                    v[h] = *m;
                    variants.push(Some(v.clone()));
                    variants.push(Some(rc_str(&v)));
                }
                for v2 in &variants {
                    for v3 in &variants {
                        let mut recs: Vec<Vec<u8>> = vec![[w, b"A".as_slice()].concat()];
                        // one padding letter keeps the windows off the record end (that corner is (a)/(b)'s)
                        if let Some(v) = v2 {
                            recs.push([v.as_slice(), b"C"].concat());
                        }
                        if let Some(v) = v3 {
                            recs.push([v.as_slice(), b"T"].concat());
                        }
                        for rc in [true, false] {
                            idx += 1;
                            if !ctx.mine(idx) {
                                continue;
                            }
                            check_case(rep, &recs, k, rc, false);
                            if rc && v2.is_some() && v3.is_some() {
                                let (_, m, _) = canon(w, true);
                                if m.count_ones() == 2 {
                                    rep.corner("self_rc_arms_with_collisions");
                                }
                                if build(&recs, k, true).values().any(|c| matches!(c, b'B' | b'D' | b'H' | b'V' | b'N')) {
                                    rep.corner("three_or_more_middle_bases");
                                }
                            }
                            if rep.evaluations % 40000 == 3 {
                                rep.sample(case_json(&recs, k, rc, false));
                            }
                        }
                    }
                }
                if n % 64 == 0 && ctx.expired() {
                    capped = true;
                    return false;
                }
                true
            });
            if capped {
                break 'c;
            }
            rep.completed.push(format!("(c) k={k} collisions stride {stride}"));
        }
    }

    // (d) several records per file, mixed lengths
    if !capped {
        let k = 5usize;
        let pool: Vec<&[u8]> = vec![b"ACGA", b"ACGAT", b"ACGATC", b"ACTAT", b"NACGAT", b"ACGANC", b"atcgt", b"ACNAT", b"GGGGG", b"ATCGTA", b"N", b"ACGTACGTA"];
        for a in &pool {
            for b in &pool {
                for c in &pool {
                    for rc in [true, false] {
                        idx += 1;
                        if !ctx.mine(idx) {
                            continue;
                        }
                        let recs = vec![a.to_vec(), b.to_vec(), c.to_vec()];
                        check_case(rep, &recs, k, rc, false);
                        rep.corner("multi_record");
                    }
                }
            }
        }
        rep.completed.push("(d) record triples".into());
    }

    // (e) state carried across an N restart: L N R with k-mers on both sides of the N
    if !capped {
        let k = 5usize;
        let mut reps: Vec<Vec<u8>> = Vec::new();
        for m in *b"ACGT" {
            reps.push(vec![b'A', b'C', m, b'G', b'T']); // self-reverse-complement arms
            reps.push(vec![b'T', b'G', m, b'C', b'A']);
            reps.push(vec![b'A', b'A', m, b'C', b'G']);
            reps.push(vec![b'G', b'T', m, b'T', b'A']);
        }
        let mut all_l: Vec<Vec<u8>> = Vec::new();
        strings(b"ACGT", k, |w| {
            all_l.push(w.to_vec());
            true
        });
        let mut all_r: Vec<Vec<u8>> = Vec::new();
        strings(b"ACGT", k + 1, |w| {
            all_r.push(w.to_vec());
            true
        });
        let mut pairs: Vec<(&Vec<u8>, &Vec<u8>)> = Vec::new();
        if thorough {
            for l in &all_l {
                for r in &all_r {
                    pairs.push((l, r));
                }
            }
        } else {
            for l in &reps {
                for r in &all_r {
                    pairs.push((l, r));
                }
            }
            for l in &all_l {
                for r in &reps {
                    pairs.push((l, r));
                }
            }
        }
        let mut n = 0u64;
        for (l, r) in pairs {
            n += 1;
            for (sep, rc) in [(b"N".as_slice(), true), (b"N".as_slice(), false), (b"nN".as_slice(), true)] {
                idx += 1;
                if !ctx.mine(idx) {
                    continue;
                }
                let recs = [[l.as_slice(), sep, r.as_slice()].concat()];
                check_case(rep, &recs, k, rc, false);
                rep.corner("kmers_on_both_sides_of_N");
                if rep.evaluations % 30000 == 11 {
                    rep.sample(case_json(&recs, k, rc, false));
                }
            }
            if n % 4096 == 0 && ctx.expired() {
                capped = true;
                break;
            }
        }
        if !capped {
            rep.completed.push(format!("(e) k=5 restart family L.N.R ({})", if thorough { "all 4^5 x 4^6" } else { "16 representatives x all, both sides" }));
        }
    }

    // (f) one sample given as TWO sequence files (chromosome + plasmids): the entry of a split k-mer is the union of
    // the middle bases seen in both files. Arms (incl. self-reverse-complement ones), every pair of middle-base subsets
    // (file 1 x file 2, 16 x 16), file 2 forward or reverse-complemented, both strand modes, both widths.
    if !capped {
        let k = 5usize;
        let arms: [(&[u8], &[u8]); 4] = [(b"AC", b"GT"), (b"AA", b"CG"), (b"GT", b"TA"), (b"CA", b"TG")];
        for (ai, (l, r)) in arms.iter().enumerate() {
            for s1 in 0u32..16 {
                for s2 in 0u32..16 {
                    for flip2 in [false, true] {
                        idx += 1;
                        if !ctx.mine(idx) {
                            continue;
                        }
                        let recs_of = |set: u32, flip: bool, filler: &[u8]| -> Vec<Vec<u8>> {
                            let mut v: Vec<Vec<u8>> = b"ACGT".iter().enumerate().filter(|(i, _)| set >> i & 1 == 1).map(|(_, m)| [*l, &[*m][..], *r].concat()).map(|x| if flip { rc_str(&x) } else { x }).collect();
                            v.push(filler.to_vec());
                            v
                        };
                        let f1 = recs_of(s1, false, b"GGGGA");
                        let f2 = recs_of(s2, flip2, b"CCTCC");
                        let both: Vec<Vec<u8>> = f1.iter().chain(f2.iter()).cloned().collect();
                        for rc in [true, false] {
                            for wide in [false, true] {
                                rep.evaluations += 1;
                                rep.nontrivial += 1;
                                let want = build(&both, k, rc);
                                rep.outcome(&want);
                                let p1 = scratch::write("c01_f1.fa", &scratch::fasta(&f1));
                                let p2 = scratch::write("c01_f2.fa", &scratch::fasta(&f2));
                                let got = if wide { crate::real::build_dict_pair::<u128>(&p1, &p2, k, rc) } else { crate::real::build_dict_pair::<u64>(&p1, &p2, k, rc) };
                                if let Err(e) = agree(&got, &want) {
                                    let j = |v: &Vec<Vec<u8>>| v.iter().map(|r| String::from_utf8_lossy(r).to_string()).collect::<Vec<_>>();
                                    rep.violate(format!("two-file sample arms={ai} file1={:?} file2={:?} rc={rc} wide={wide}", j(&f1), j(&f2)), format!("one sample built from two files: {e}"), json!({"pair": true, "file1": j(&f1), "file2": j(&f2), "k": k, "rc": rc, "wide": wide}));
                                }
                            }
                        }
                        rep.corner("sample_from_two_files");
                    }
                }
            }
        }
        rep.completed.push("(f) k=5 one sample from two files: 4 arms x 16 x 16 middle-base subsets x file-2 orientation x strand mode x width".into());
    }

    // CLI: build + nk report format and per-sample counts
    if !capped {
        let ks: Vec<usize> = if thorough { ALL_K.to_vec() } else { vec![5, 7, 31, 33, 63] };
        for k in ks {
            let base = repeat_free(k + 6, k, 0, ctx.seed + 1);
            let mut mutated = base.clone();
            let h = (k - 1) / 2;
            mutated[h + 1] = comp(mutated[h + 1]);
            let sample_sets: Vec<Vec<Vec<Vec<u8>>>> = vec![
                vec![vec![base.clone()]],
                vec![vec![base.clone()], vec![mutated.clone()]],
                vec![vec![base[..k].to_vec(), b"NN".to_vec()], vec![rc_str(&mutated)], vec![base[1..].to_vec(), mutated[..k + 1].to_vec()]],
            ];
            // the same sample given as chromosome + plasmid files; the plasmid carries two further alleles of one split
            // k-mer of the chromosome
            for rc in [true, false] {
                idx += 1;
                if ctx.mine(idx) {
                    let mut m2 = base.clone();
                    m2[h + 1] = crate::engines::lo::alt_base(base[h + 1], 1);
                    let m2 = if m2 == mutated { let mut x = base.clone(); x[h + 1] = crate::engines::lo::alt_base(base[h + 1], 2); x } else { m2 };
                    let (f1, f2) = (vec![base.clone()], vec![rc_str(&mutated[..k + 1]), m2[..k + 2].to_vec()]);
                    rep.evaluations += 1;
                    rep.nontrivial += 1;
                    rep.corner("cli_build_two_files_one_sample");
                    if let Err(e) = cli_pair_case(&f1, &f2, k, rc) {
                        let j = |v: &Vec<Vec<u8>>| v.iter().map(|r| String::from_utf8_lossy(r).to_string()).collect::<Vec<_>>();
                        rep.violate(format!("cli two-file sample k={k} rc={rc}"), e, json!({"cli_pair": true, "file1": j(&f1), "file2": j(&f2), "k": k, "rc": rc}));
                    }
                }
            }
            // a scaffold gap: one unbroken run of 300 000 N between two stretches with k-mers
            if k == 31 || k == 7 {
                idx += 1;
                if ctx.mine(idx) {
                    let rec: Vec<u8> = [&base[..k + 3], &vec![b'N'; 300_000][..], &mutated[..]].concat();
                    rep.evaluations += 1;
                    rep.nontrivial += 1;
                    rep.corner("cli_build_run_of_300000_N");
                    if let Err(e) = cli_case(&[vec![rec]], k, true) {
                        rep.violate(format!("cli build+nk k={k} run of 300000 N"), format!("a record with a run of 300 000 N: {e}"), json!({"cli_gap": true, "k": k}));
                    }
                }
            }
            for samples in sample_sets {
                for rc in [true, false] {
                    idx += 1;
                    if !ctx.mine(idx) {
                        continue;
                    }
                    rep.evaluations += 1;
                    rep.nontrivial += 1;
                    rep.corner("cli_build_nk");
                    if let Err(e) = cli_case(&samples, k, rc) {
                        let sj: Vec<Vec<String>> = samples.iter().map(|s| s.iter().map(|r| String::from_utf8_lossy(r).to_string()).collect()).collect();
                        rep.violate(format!("cli build+nk k={k} rc={rc} samples={sj:?}"), e, json!({"cli": true, "samples": sj, "k": k, "rc": rc}));
                    }
                }
            }
        }
        // every fifth ordered triple of the record pool as a three-sample build: report format and per-sample counts
        {
            let pool: Vec<&[u8]> = vec![b"ACGAT", b"ACGATC", b"ACTAT", b"NACGAT", b"ACGANC", b"atcgt", b"ACNATACGAT", b"GGGGGA", b"ATCGTA", b"ACGTACGTA", b"ACAGTA", b"TGCATGCAAT"];
            let mut n = 0u64;
            for a in &pool {
                for b in &pool {
                    for c in &pool {
                        n += 1;
                        if n % 5 != 0 && !thorough {
                            continue;
                        }
                        idx += 1;
                        if !ctx.mine(idx) {
                            continue;
                        }
                        let samples = vec![vec![a.to_vec()], vec![b.to_vec(), c.to_vec()], vec![c.to_vec()]];
                        for rc in [true, false] {
                            rep.evaluations += 1;
                            rep.nontrivial += 1;
                            rep.corner("cli_build_nk_pool");
                            if let Err(e) = cli_case(&samples, 5, rc) {
                                let sj: Vec<Vec<String>> = samples.iter().map(|s| s.iter().map(|r| String::from_utf8_lossy(r).to_string()).collect()).collect();
                                rep.violate(format!("cli build+nk k=5 rc={rc} samples={sj:?}"), e, json!({"cli": true, "samples": sj, "k": 5, "rc": rc}));
                            }
                        }
                    }
                }
                if ctx.expired() {
                    capped = true;
                    break;
                }
            }
        }
        // 300 samples in one build (more than 2^8 sample columns): sample i carries substitutions at the positions of
        // the set bits of i+1, two records each
        {
            idx += 1;
            if ctx.mine(idx) {
                let k = 15usize;
                let g = crate::enumerate::repeat_free(12 * k, k, 0, ctx.seed + 3100);
                let g2 = crate::enumerate::repeat_free(3 * k, k, 0, ctx.seed + 3101);
                let samples: Vec<Vec<Vec<u8>>> = (0..300usize)
                    .map(|i| {
                        let mut s = g.clone();
                        for bit in 0..9 {
                            if ((i + 1) >> bit) & 1 == 1 {
                                let p = k + bit * (k + 2);
                                s[p] = comp(s[p]);
                            }
                        }
                        vec![if i % 3 == 1 { rc_str(&s) } else { s }, g2[i % k..].to_vec()]
                    })
                    .collect();
                rep.evaluations += 1;
                rep.nontrivial += 1;
                rep.corner("cli_build_nk_300_samples");
                if let Err(e) = cli_case(&samples, k, true) {
                    rep.violate("cli build+nk 300 samples".into(), format!("300 samples: {e}"), json!({"cli": true, "many_samples": 300, "k": k}));
                }
            }
        }
        rep.completed.push("CLI build+nk".into());
    }
    rep.sample(json!({"records": ["ACGTTGCAT"], "k": 9, "rc": true, "wide": false, "note": "record of length exactly k: one split k-mer expected"}));
    rep.capped = capped;
}
