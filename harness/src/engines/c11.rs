//! C11 — thread count and run-to-run nondeterminism never change a result.
//! Part 1/2: configuration sweep on the real CLI with real thread pools.
//! Part 3 (schedules of the one racy structure) lives in c11_sched.rs.

use serde_json::json;

use super::lo;
use crate::cli;
use crate::explore::{Ctx, Meta, Report};
use crate::mirror::FileState;
use crate::real;
use crate::refmodel::*;
use crate::scratch;

pub fn meta() -> Meta {
    Meta {
        id: "C11",
        level: "model_checking",
        rule: "(1)+(2) configuration sweep through the real CLI with real thread pools: subcommand in {build, build --proportion-reads 0.5 (two records per file; n in {9,10,21,70}), align, map aln, map vcf, distance, lo with reference, lo without} x input kind {.skf, sequence files} where accepted x sample count in {2,9,10,11,19,20,21,29,30,31} (both sides of every step of the 10-samples-per-thread rule; build additionally 69,70,149,150 for split depth 3 and 4) x thread counts (quick: 1,2,3,4,8,16 and all 1..16 at n=10 and 21; thorough: all 1..16) x hash seeds {s, s+1} (thorough 4): exit status 0 whenever the 1-thread run exits 0 and output equal to the 1-thread/seed-s output — byte-exact for map, distance and lo with reference, as a table for build (every sample in its input column), as a column multiset for align, as a column multiset modulo complement for reference-free lo; plus `ska lo -r` under 8 (thorough 24) hash seeds x threads 1,2,4 on (a) a triallelic SNP, (b) a reference with a three-copy repeat and junction SNPs and (c) pairs of linked SNPs at distances 1, 2, k-2, k-1, k, k+1, 2k-2: all outputs identical. (3) schedule exploration of the only racy structure (DashMap neighbour vectors in skalo::build_graph): an explicit-state model enumerates every interleaving of the per-row push operations of W=2,3 workers pulling rows from a shared iterator and collects the set R of reachable final graphs; every element of R is fed through the real identify_good_kmers + build_variant_groups and must give the same, planted result; real multi-threaded build_graph runs must land inside R; 1-thread runs on permuted rows must equal the model's result for that item order. states/transitions are those of the interleaving model; traces_validated = elements of R replayed through the real downstream code + real runs checked for membership.".into(),
        assumptions: vec![
            "rayon's internal scheduling is not explored; outside skalo there is no shared mutable state (fork-join over disjoint slices, ordered collection), and the sweep would expose a violation of that argument as an output difference".into(),
            "each DashMap entry operation is atomic (the entry guard holds the shard lock for the statement)".into(),
            "hash seeds are a declared finite set owned by the LD_PRELOAD shim".into(),
        ],
        exhaustive_when_uncapped: true, // the declared bounded space (all selections / the whole lattice / all histories up to the depth bound / all interleavings and configurations) is enumerated completely unless capped
    }
}

fn family(n: usize, seed: u64) -> (Vec<u8>, Vec<Vec<Vec<u8>>>) {
    let k = 17usize;
    let g = lo::ancestor(260, k, seed + 11);
    let sites = [50usize, 100, 150, 200];
    let samples = (0..n)
        .map(|i| {
            let mut s = g.clone();
            for (j, p) in sites.iter().enumerate() {
                if ((i + 1) >> j) & 1 == 1 {
                    s[*p] = comp(s[*p]);
                }
            }
            // a site with three alleles, one with four, and a stretch that every fifth sample lacks
            s[125] = lo::alt_base(g[125], (i % 3) as u8);
            s[175] = [b'A', b'C', b'G', b'T'][(i + i / 4) % 4];
            if i % 5 == 4 {
                s.drain(215..240);
            }
            vec![if i % 3 == 1 { rc_str(&s) } else { s }]
        })
        .collect();
    (g, samples)
}

#[derive(Clone, Copy, Debug, PartialEq)]
enum Cmd {
    Build,
    /// build with --proportion-reads 0.5 from files of two records each (every second record is skipped)
    BuildHalf,
    /// build from paired FASTQ samples with --min-count auto (the coverage model is fitted first, on the first pair)
    BuildAuto,
    AlignSkf,
    AlignFa,
    MapAlnSkf,
    MapAlnFa,
    MapVcfSkf,
    MapVcfFa,
    Distance,
    LoRef,
    LoNoRef,
}

const CMDS: [Cmd; 10] = [Cmd::Build, Cmd::AlignSkf, Cmd::AlignFa, Cmd::MapAlnSkf, Cmd::MapAlnFa, Cmd::MapVcfSkf, Cmd::MapVcfFa, Cmd::Distance, Cmd::LoRef, Cmd::LoNoRef];

/// run one configuration; returns (exit code, canonical output)
fn run_cmd(cmd: Cmd, dir: &str, files: &[String], threads: usize, seed: u64) -> (i32, String, String) {
    let ts = threads.to_string();
    let fa: Vec<&str> = files.iter().map(|s| s.as_str()).collect();
    let tail = |o: &cli::CliOut| String::from_utf8_lossy(&o.stderr).lines().filter(|l| l.contains("panicked") || l.contains("rror")).take(2).collect::<Vec<_>>().join(" / ");
    match cmd {
        Cmd::Build => {
            let _ = std::fs::remove_file(format!("{dir}/b.skf"));
            let mut a = vec!["build", "-k", "17", "-o", "b", "--threads", &ts];
            a.extend(fa.iter());
            let o = cli::run(&a, dir, Some(seed));
            let canon = match FileState::read(&format!("{dir}/b.skf")) {
                Ok(s) => format!("{:?}", s.table),
                Err(e) => format!("unreadable: {e}"),
            };
            (o.code, canon, tail(&o))
        }
        Cmd::BuildHalf => {
            let _ = std::fs::remove_file(format!("{dir}/b.skf"));
            let mut a = vec!["build", "-k", "17", "-o", "b", "--proportion-reads", "0.5", "--threads", &ts];
            a.extend(fa.iter());
            let o = cli::run(&a, dir, Some(seed));
            let canon = match FileState::read(&format!("{dir}/b.skf")) {
                Ok(s) => format!("{:?}", s.table),
                Err(e) => format!("unreadable: {e}"),
            };
            (o.code, canon, tail(&o))
        }
        Cmd::BuildAuto => {
            let _ = std::fs::remove_file(format!("{dir}/b.skf"));
            let o = cli::run(&["build", "-k", "17", "-o", "b", "-f", "reads.list", "--min-count", "auto", "--threads", &ts], dir, Some(seed));
            let canon = match FileState::read(&format!("{dir}/b.skf")) {
                Ok(s) => format!("{:?}", s.table),
                Err(e) => format!("unreadable: {e}"),
            };
            (o.code, canon, tail(&o))
        }
        Cmd::AlignSkf | Cmd::AlignFa => {
            let mut a = vec!["align", "--threads", &ts, "--min-freq", "0.5"];
            if cmd == Cmd::AlignSkf {
                a.push("in.skf");
            } else {
                a.extend(fa.iter());
            }
            let o = cli::run(&a, dir, Some(seed));
            let (nm, seqs) = real::parse_fasta(&o.stdout);
            let cols = real::columns_of(&seqs).map(|c| format!("{:?}", c.iter().map(|x| String::from_utf8_lossy(x).to_string()).collect::<Vec<_>>())).unwrap_or_else(|e| e);
            (o.code, format!("{nm:?} {cols}"), tail(&o))
        }
        Cmd::MapAlnSkf | Cmd::MapAlnFa | Cmd::MapVcfSkf | Cmd::MapVcfFa => {
            let mut a = vec!["map", "ref.fa"];
            if matches!(cmd, Cmd::MapAlnSkf | Cmd::MapVcfSkf) {
                a.push("in.skf");
            } else {
                a.extend(fa.iter());
            }
            a.extend(["--threads", &ts]);
            if matches!(cmd, Cmd::MapVcfSkf | Cmd::MapVcfFa) {
                a.extend(["-f", "vcf"]);
            }
            let o = cli::run(&a, dir, Some(seed));
            (o.code, String::from_utf8_lossy(&o.stdout).to_string(), tail(&o))
        }
        Cmd::Distance => {
            let o = cli::run(&["distance", "in.skf", "--threads", &ts, "--min-freq", "0.5"], dir, Some(seed));
            (o.code, String::from_utf8_lossy(&o.stdout).to_string(), tail(&o))
        }
        Cmd::LoRef => {
            let refseq = std::fs::read(format!("{dir}/ref.fa")).unwrap_or_default();
            let (_, seqs) = real::parse_fasta(&refseq);
            match lo::lo_on_file(dir, Some(&seqs[0]), &[], threads, Some(seed)) {
                Ok(o) => (o.code, format!("{:?}\n{:?}\n{:?}\n{:?}\n{}", o.snp_names, o.snp_seqs.iter().map(|s| String::from_utf8_lossy(s).to_string()).collect::<Vec<_>>(), o.snps_vcf, o.pseudo.map(|p| p.1.iter().map(|s| String::from_utf8_lossy(s).to_string()).collect::<Vec<_>>()), o.indels_vcf), o.stderr_tail),
                Err(e) => (-9, e, String::new()),
            }
        }
        Cmd::LoNoRef => match lo::lo_on_file(dir, None, &[], threads, Some(seed)) {
            Ok(o) => (o.code, format!("{:?} {:?}", o.snp_names, lo::snp_columns(&o).map(|c| c.iter().map(|x| String::from_utf8_lossy(x).to_string()).collect::<Vec<_>>())), o.stderr_tail),
            Err(e) => (-9, e, String::new()),
        },
    }
}

pub fn run_sweep(ctx: &Ctx, rep: &mut Report) {
    let thorough = ctx.tier.thorough();
    let mut idx = 0u64;
    let mut groups: Vec<(Cmd, usize)> = Vec::new();
    for n in [2usize, 9, 10, 11, 19, 20, 21, 29, 30, 31] {
        for c in CMDS {
            groups.push((c, n));
        }
    }
    for n in [69usize, 70, 149, 150] {
        groups.push((Cmd::Build, n));
    }
    for n in [9usize, 10, 21, 70] {
        groups.push((Cmd::BuildHalf, n));
    }
    for n in [2usize, 11] {
        groups.push((Cmd::BuildAuto, n));
    }
    // scaffold gaps: sample 3 of 12 carries one unbroken run of 8 000 / 30 000 N (read on a pool thread as soon as
    // --threads >= 2: smaller stack than the main thread's); n + GAP_MARK * gap encodes the group
    const GAP_MARK: usize = 1000;
    for gap in [8usize, 30] {
        for c in [Cmd::Build, Cmd::AlignFa, Cmd::MapAlnFa] {
            groups.push((c, 12 + GAP_MARK * gap));
        }
    }
    for (cmd, n) in groups {
        idx += 1;
        if !ctx.mine(idx) {
            continue;
        }
        if ctx.expired() {
            rep.capped = true;
            return;
        }
        let gap = (n / GAP_MARK) * 1000;
        let n = n % GAP_MARK;
        let (g, mut samples) = family(n, ctx.seed);
        if gap > 0 {
            let s = &mut samples[3][0];
            let tail = s.split_off(130);
            s.extend(std::iter::repeat(b'N').take(gap));
            s.extend(tail);
            rep.corner("sample_with_a_long_run_of_N");
        }
        let dir = scratch::path("c11");
        let _ = std::fs::remove_dir_all(&dir);
        std::fs::create_dir_all(&dir).unwrap();
        std::fs::write(format!("{dir}/ref.fa"), scratch::fasta_named(&[("chr".into(), g.clone())])).unwrap();
        if cmd == Cmd::BuildAuto {
            // n samples of paired reads: a 2 kb genome (a substitution per sample) tiled at 20x by reads of 80 letters,
            // alternately into the two files, every third read reverse-complemented, every seventh with one error
            let big = lo::ancestor(2000, 17, ctx.seed + 13);
            let mut list = String::new();
            for i in 0..n {
                let mut gi = big.clone();
                gi[100 + 37 * i] = comp(gi[100 + 37 * i]);
                let mut fq = [String::new(), String::new()];
                let mut r = 0usize;
                let mut p = 0usize;
                while p + 80 <= gi.len() {
                    let mut read = gi[p..p + 80].to_vec();
                    if r % 7 == 3 {
                        let e = (r * 13) % 80;
                        read[e] = comp(read[e]);
                    }
                    if r % 3 == 1 {
                        read = rc_str(&read);
                    }
                    fq[r % 2].push_str(&format!("@r{r}\n{}\n+\n{}\n", String::from_utf8_lossy(&read), "I".repeat(80)));
                    p += 4;
                    r += 1;
                }
                std::fs::write(format!("{dir}/r{i}_1.fastq"), &fq[0]).unwrap();
                std::fs::write(format!("{dir}/r{i}_2.fastq"), &fq[1]).unwrap();
                list.push_str(&format!("rs{i}\tr{i}_1.fastq\tr{i}_2.fastq\n"));
            }
            std::fs::write(format!("{dir}/reads.list"), list).unwrap();
        }
        let mut files = Vec::new();
        let second = lo::ancestor(200, 17, ctx.seed + 12);
        for (i, s) in samples.iter().enumerate() {
            if cmd == Cmd::BuildHalf {
                // a second record per sample (a sample-specific stretch of another sequence): skipped by the option
                let mut recs = s.clone();
                recs.push(second[i % 100..i % 100 + 60].to_vec());
                std::fs::write(format!("{dir}/s{i}.fa"), scratch::fasta(&recs)).unwrap();
            } else {
                std::fs::write(format!("{dir}/s{i}.fa"), scratch::fasta(s)).unwrap();
            }
            files.push(format!("s{i}.fa"));
        }
        if !matches!(cmd, Cmd::Build | Cmd::BuildHalf | Cmd::BuildAuto | Cmd::AlignFa | Cmd::MapAlnFa | Cmd::MapVcfFa) {
            let mut a = vec!["build", "-k", "17", "-o", "in"];
            a.extend(files.iter().map(|s| s.as_str()));
            if cli::run(&a, &dir, Some(ctx.seed)).code != 0 {
                rep.machinery("C11: cannot build the input .skf".into());
                continue;
            }
        }
        let (base_code, base_out, base_tail) = run_cmd(cmd, &dir, &files, 1, ctx.seed);
        rep.evaluations += 1;
        if base_code != 0 {
            // the single-threaded run itself fails: nothing to compare against (other properties' business)
            rep.corner("single_thread_baseline_fails");
            rep.extra.insert(format!("baseline_failure[{cmd:?} n={n}]"), json!(base_tail));
            continue;
        }
        rep.outcome(&base_out);
        let threads: Vec<usize> = if thorough || n == 10 || n == 21 { (1..=16).collect() } else { vec![1, 2, 3, 4, 8, 16] };
        let seeds: Vec<u64> = if thorough { (0..4).map(|i| ctx.seed + i).collect() } else { vec![ctx.seed, ctx.seed + 1] };
        for t in &threads {
            for s in &seeds {
                if *t == 1 && *s == ctx.seed {
                    continue;
                }
                rep.evaluations += 1;
                rep.nontrivial += 1;
                let (code, out, tail) = run_cmd(cmd, &dir, &files, *t, *s);
                if code != 0 {
                    rep.violate(format!("{cmd:?} n={n} threads={t}"), format!("{cmd:?} with {n} samples: --threads {t} (hash seed {s}) fails with exit {code} although --threads 1 succeeds: {tail}"), json!({"cmd": format!("{cmd:?}"), "n": n, "threads": t, "hash_seed": s}));
                } else if out != base_out {
                    rep.violate(format!("{cmd:?} n={n} threads={t} output"), format!("{cmd:?} with {n} samples: --threads {t} (hash seed {s}) gives a different result than --threads 1 (hash seed {})", ctx.seed), json!({"cmd": format!("{cmd:?}"), "n": n, "threads": t, "hash_seed": s}));
                }
            }
        }
        // the same command with progress messages switched on (-v), two threads: same result
        {
            rep.evaluations += 1;
            rep.nontrivial += 1;
            cli::set_verbose(true);
            let (code, out, tail) = run_cmd(cmd, &dir, &files, 2, ctx.seed);
            cli::set_verbose(false);
            if code != 0 {
                rep.violate(format!("{cmd:?} n={n} verbose"), format!("{cmd:?} with {n} samples: -v --threads 2 fails with exit {code} although the quiet single-threaded run succeeds: {tail}"), json!({"cmd": format!("{cmd:?}"), "n": n, "threads": 2, "verbose": true}));
            } else if out != base_out {
                rep.violate(format!("{cmd:?} n={n} verbose output"), format!("{cmd:?} with {n} samples: -v --threads 2 gives a different result than the quiet --threads 1 run"), json!({"cmd": format!("{cmd:?}"), "n": n, "threads": 2, "verbose": true}));
            }
            rep.corner("verbose_run");
        }
        // the same command line in each of the four argument layouts (options first / between / last): same result
        for layout in 0..4usize {
            rep.evaluations += 1;
            rep.nontrivial += 1;
            cli::set_layout(layout);
            let (code, out, tail) = run_cmd(cmd, &dir, &files, 1, ctx.seed);
            cli::set_layout(cli::AUTO_LAYOUT);
            if code != 0 {
                rep.violate(format!("{cmd:?} n={n} layout {layout}"), format!("{cmd:?} with {n} samples: with the arguments in layout {layout} (0 as documented, 1 options first, 2 options behind the first positional, 3 options last) the command fails with exit {code}: {tail}"), json!({"cmd": format!("{cmd:?}"), "n": n, "layout": layout}));
            } else if out != base_out {
                rep.violate(format!("{cmd:?} n={n} layout {layout} output"), format!("{cmd:?} with {n} samples: argument layout {layout} gives a different result"), json!({"cmd": format!("{cmd:?}"), "n": n, "layout": layout}));
            }
            rep.corner("argument_layouts");
        }
        rep.corner(&format!("{cmd:?}"));
        let _ = base_tail;
    }
    // reference-mode ska lo under many hash seeds: (a) a triallelic SNP in unique sequence, (b) a reference with a
    // three-copy repeat and junction SNPs. All outputs must be identical whatever the hash seed or thread count.
    if !rep.capped {
        for (fam0, k) in [("triallelic", 21usize), ("three-copy repeat", 21), ("linked SNP pairs", 21), ("tied indels", 21), ("indel beside a SNP", 21), ("tied indels", 11), ("indel beside a SNP", 11), ("tied indels", 33), ("indel beside a SNP", 33), ("triallelic", 33), ("linked SNP pairs", 15), ("SNP cluster", 21), ("SNP cluster", 13)] {
            let fam_owned = if k == 21 { fam0.to_string() } else { format!("{fam0} k={k}") };
            let fam = fam_owned.as_str();
            idx += 1;
            if !ctx.mine(idx) {
                continue;
            }
            let n = 6usize;
            let (reference, samples): (Vec<u8>, Vec<Vec<Vec<u8>>>) = if fam0 == "linked SNP pairs" {
                // pairs of SNPs carried by the same samples (one bubble), at distances 1, 2, k-2, k-1, k, k+1, 2k-2, each
                // pair at its own locus 6k apart
                let dists = [1usize, 2, k - 2, k - 1, k, k + 1, 2 * k - 2];
                let g = lo::ancestor(6 * k * (dists.len() + 1), k, ctx.seed + 97);
                let smp = (0..n)
                    .map(|i| {
                        let mut s = g.clone();
                        for (j, d) in dists.iter().enumerate() {
                            if (i + j) % 2 == 0 {
                                let p = 3 * k + j * 6 * k;
                                s[p] = comp(s[p]);
                                s[p + d] = comp(s[p + d]);
                            }
                        }
                        vec![if i % 3 == 1 { rc_str(&s) } else { s }]
                    })
                    .collect();
                (g, smp)
            } else if fam0 == "tied indels" {
                // insertions/deletions whose two alleles have exactly as many carriers each (3 v 3, and 2 v 2 with two
                // samples lacking the locus is not possible here, so 3 v 3): which allele is REF must not depend on
                // the order paths happen to be found in
                let lens = [1usize, 2, 3, 5, 8];
                let g = lo::ancestor(6 * k * (lens.len() + 1), k, ctx.seed + 96);
                let smp = (0..n)
                    .map(|i| {
                        let mut s: Vec<u8> = Vec::new();
                        let mut at = 0usize;
                        for (j, l) in lens.iter().enumerate() {
                            let p = 3 * k + j * 6 * k;
                            s.extend_from_slice(&g[at..p]);
                            // half of the samples lack the l bases at p; which half rotates with the locus
                            at = if (i + j) % 2 == 0 { p + l } else { p };
                        }
                        s.extend_from_slice(&g[at..]);
                        vec![if i % 3 == 1 { rc_str(&s) } else { s }]
                    })
                    .collect();
                (g, smp)
            } else if fam0 == "indel beside a SNP" {
                // an indel and a substitution d bases apart carried by different halves of the samples: four haplotypes
                // in one tangle of the graph; plus a three-allele indel locus (absent / short / long)
                let ds = [1usize, 3, k / 2, k - 2, k, k + 3];
                let g = lo::ancestor(6 * k * (ds.len() + 2), k, ctx.seed + 95);
                let smp = (0..n)
                    .map(|i| {
                        let mut s: Vec<u8> = Vec::new();
                        let mut at = 0usize;
                        for (j, d) in ds.iter().enumerate() {
                            let p = 3 * k + j * 6 * k;
                            s.extend_from_slice(&g[at..p]);
                            at = if (i + j) % 2 == 0 { p + 2 } else { p };
                            let q = p + 2 + d;
                            s.extend_from_slice(&g[at..q]);
                            s.push(if (i / 2 + j) % 2 == 0 { comp(g[q]) } else { g[q] });
                            at = q + 1;
                        }
                        let p = 3 * k + ds.len() * 6 * k;
                        s.extend_from_slice(&g[at..p]);
                        at = p + [0usize, 2, 5][i % 3];
                        s.extend_from_slice(&g[at..]);
                        vec![if i % 3 == 1 { rc_str(&s) } else { s }]
                    })
                    .collect();
                (g, smp)
            } else if fam0 == "SNP cluster" {
                // three substitutions within one k-mer length of each other, each with its own carrier set: up to six
                // haplotypes in one tangle; three such loci with spacings (2,3), (k/2,k/3), (k-2,1)
                let sp = [(2usize, 3usize), (k / 2, k / 3), (k - 2, 1)];
                let g = lo::ancestor(6 * k * (sp.len() + 1), k, ctx.seed + 94);
                let smp = (0..n)
                    .map(|i| {
                        let mut s = g.clone();
                        for (j, (a, b)) in sp.iter().enumerate() {
                            let p = 3 * k + j * 6 * k;
                            if (i + j) % 2 == 0 {
                                s[p] = comp(s[p]);
                            }
                            if (i / 2 + j) % 2 == 0 {
                                s[p + a] = comp(s[p + a]);
                            }
                            if i % 3 == j % 3 {
                                s[p + a + b] = lo::alt_base(g[p + a + b], 2);
                            }
                        }
                        vec![if i % 3 == 1 { rc_str(&s) } else { s }]
                    })
                    .collect();
                (g, smp)
            } else if fam0 == "triallelic" {
                let g = lo::ancestor(12 * k, k, ctx.seed + 98);
                let sites = [4 * k, 8 * k];
                let smp = (0..n)
                    .map(|i| {
                        let mut s = g.clone();
                        s[sites[0]] = lo::alt_base(g[sites[0]], (i % 3) as u8); // three alleles
                        if i % 2 == 0 {
                            s[sites[1]] = comp(s[sites[1]]);
                        }
                        vec![if i % 2 == 1 { rc_str(&s) } else { s }]
                    })
                    .collect();
                (g, smp)
            } else {
                let (rlen, ulen) = (8 * k, 24 * k);
                let body = lo::ancestor(rlen + 4 * ulen, k, ctx.seed + 99);
                let r = body[..rlen].to_vec();
                let u: Vec<Vec<u8>> = (0..4).map(|i| body[rlen + i * ulen..rlen + (i + 1) * ulen].to_vec()).collect();
                let reference: Vec<u8> = [u[0].clone(), r.clone(), u[1].clone(), r.clone(), u[2].clone(), r.clone(), u[3].clone()].concat();
                let c1 = u[0].len();
                let c2 = c1 + r.len() + u[1].len();
                // junction SNPs: the base right after copy 1 and right before copy 2; ordinary SNPs in unique sequence
                let sites = vec![c1 + r.len(), c2 - 1, 4 * k, c1 + r.len() + 10 * k, c2 + r.len() + 6 * k, reference.len() - 4 * k];
                let smp = (0..n)
                    .map(|i| {
                        let mut s = reference.clone();
                        for (j, p) in sites.iter().enumerate() {
                            if (i + j) % 3 != 0 {
                                s[*p] = lo::alt_base(reference[*p], 1 + ((j % 2) as u8));
                            }
                        }
                        vec![if i % 2 == 1 { rc_str(&s) } else { s }]
                    })
                    .collect();
                (reference, smp)
            };
            let dir = scratch::path("c11rep");
            // canonical output -> configurations; and per configuration the called positions / ALT strings
            let mut outs: std::collections::BTreeMap<String, Vec<(usize, u64)>> = std::collections::BTreeMap::new();
            let mut called: Vec<std::collections::BTreeMap<usize, String>> = Vec::new();
            let mut indel_recs: Vec<std::collections::BTreeSet<String>> = Vec::new();
            let nseeds = if thorough { 24 } else { 8 };
            let mut ok = true;
            for hs in 0..nseeds {
                for t in [1usize, 2, 4] {
                    rep.evaluations += 1;
                    rep.nontrivial += 1;
                    match lo::run_lo(&dir, k, &samples, Some(&reference), &[], t, Some(ctx.seed + hs)) {
                        Ok(o) if o.code == 0 => {
                            let canon = format!("{:?}|{:?}|{:?}|{}", o.snp_seqs, o.snps_vcf, o.pseudo.as_ref().map(|p| &p.1), o.indels_vcf);
                            if let Ok(d) = std::env::var("VERIF_DUMP") {
                                // debugging aid: the whole canonical output of every configuration
                                let _ = std::fs::write(format!("{d}/{}_{hs}_{t}.txt", fam.replace(' ', "_")), canon.replace("\\n", "\n"));
                            }
                            outs.entry(canon).or_default().push((t, ctx.seed + hs));
                            let mut m = std::collections::BTreeMap::new();
                            for l in o.snps_vcf.unwrap_or_default().lines() {
                                if !l.starts_with('#') {
                                    let f: Vec<&str> = l.split('\t').collect();
                                    if f.len() > 4 {
                                        m.insert(f[1].parse::<usize>().unwrap_or(0), f[4].to_string());
                                    }
                                }
                            }
                            called.push(m);
                            indel_recs.push(o.indels_vcf.lines().filter(|l| !l.starts_with('#')).map(|l| l.split('\t').take(5).collect::<Vec<_>>().join(" ")).collect());
                        }
                        Ok(o) => {
                            ok = false;
                            rep.violate(format!("lo-ref {fam} family threads={t} seed={hs}"), format!("ska lo -r ({fam} family) exits {} {}", o.code, o.stderr_tail), json!({"cmd": "LoRefSeeds", "family": fam, "threads": t, "hash_seed": hs}));
                        }
                        Err(e) => rep.machinery(e),
                    }
                }
            }
            // once more through the dev-profile build of the same source (overflow checks on): it must succeed and write
            // what the release build writes
            if ok && cli::debug_exe().is_some() && !cli::debug_profile() {
                for with_ref in [true, false] {
                    rep.evaluations += 1;
                    rep.nontrivial += 1;
                    let rel = lo::run_lo(&dir, k, &samples, if with_ref { Some(&reference) } else { None }, &[], 1, Some(ctx.seed));
                    cli::set_debug_profile(true);
                    let dbg = lo::run_lo(&dir, k, &samples, if with_ref { Some(&reference) } else { None }, &[], 1, Some(ctx.seed));
                    cli::set_debug_profile(false);
                    rep.corner("lo_family_through_the_overflow_checked_build");
                    match (rel, dbg) {
                        (Ok(a), Ok(b)) => {
                            if a.code == 0 && b.code != 0 {
                                rep.violate(format!("lo {fam} family, overflow-checked build"), format!("[overflow-checked build] ska lo ({fam} family, {}) exits {} where the release build succeeds: {}", if with_ref { "with reference" } else { "no reference" }, b.code, b.stderr_tail), json!({"cmd": "LoProfiles", "family": fam, "with_ref": with_ref, "profile": "overflow-checked"}));
                            } else if a.code == 0 && (a.snp_seqs != b.snp_seqs || a.snps_vcf != b.snps_vcf || a.indels_vcf != b.indels_vcf) {
                                rep.violate(format!("lo {fam} family, profiles differ"), format!("ska lo ({fam} family, {}) writes different files in the release and the overflow-checked build", if with_ref { "with reference" } else { "no reference" }), json!({"cmd": "LoProfiles", "family": fam, "with_ref": with_ref}));
                            }
                        }
                        (Err(e), _) | (_, Err(e)) => rep.machinery(e),
                    }
                }
            }
            // the same family without a reference: columns up to order and strand; indel records up to order and strand
            let mut outs_nr: std::collections::BTreeMap<String, Vec<(usize, u64)>> = std::collections::BTreeMap::new();
            for hs in 0..nseeds {
                for t in [1usize, 3] {
                    rep.evaluations += 1;
                    rep.nontrivial += 1;
                    match lo::run_lo(&dir, k, &samples, None, &[], t, Some(ctx.seed + hs)) {
                        Ok(o) if o.code == 0 => {
                            let cols = lo::snp_columns(&o).map(|c| c.iter().map(|x| String::from_utf8_lossy(x).to_string()).collect::<Vec<_>>());
                            let mut ind: Vec<String> = lo::parse_indels(&o.indels_vcf)
                                .iter()
                                .map(|r| {
                                    let fwd = format!("{} {} {} {} {:?}", r.ref_allele, r.alt_allele, r.before, r.after, r.gts);
                                    let rcs = |x: &str| if x == "-" { x.to_string() } else { String::from_utf8_lossy(&rc_str(x.as_bytes())).to_string() };
                                    let rev = format!("{} {} {} {} {:?}", rcs(&r.ref_allele), rcs(&r.alt_allele), rcs(&r.after), rcs(&r.before), r.gts);
                                    std::cmp::min(fwd, rev)
                                })
                                .collect();
                            ind.sort();
                            outs_nr.entry(format!("{:?} {cols:?} {ind:?}", o.snp_names)).or_default().push((t, ctx.seed + hs));
                        }
                        Ok(o) => {
                            ok = false;
                            rep.violate(format!("lo-noref {fam} family threads={t} seed={hs}"), format!("ska lo ({fam} family, no reference) exits {} {}", o.code, o.stderr_tail), json!({"cmd": "LoNoRefSeeds", "family": fam, "threads": t, "hash_seed": hs}));
                        }
                        Err(e) => rep.machinery(e),
                    }
                }
            }
            rep.extra.insert(format!("max_lo_noref_distinct_outputs[{fam}]"), json!(outs_nr.len()));
            if ok && outs_nr.len() > 1 {
                let groups: Vec<String> = outs_nr.values().map(|v| format!("{v:?}")).collect();
                let keys: Vec<&String> = outs_nr.keys().collect();
                // first difference between the first two outputs, for the message
                let (a, b) = (keys[0], keys[1]);
                let at = a.bytes().zip(b.bytes()).position(|(x, y)| x != y).unwrap_or(a.len().min(b.len()));
                let from = at.saturating_sub(60);
                rep.violate(
                    format!("lo-noref {fam} family: {} different results", outs_nr.len()),
                    format!("ska lo without a reference ({fam} family) gives {} different results (columns up to order and strand, indel records up to order and strand) depending on (threads, hash seed): groups {}; first difference: …{}… vs …{}…", outs_nr.len(), groups.join(" vs "), &a[from..(at + 60).min(a.len())], &b[from..(at + 60).min(b.len())]),
                    json!({"cmd": "LoNoRefSeeds", "family": fam, "groups": groups}),
                );
            }
            rep.corner(&format!("lo_ref_many_seeds[{fam}]"));
            rep.extra.insert(format!("max_lo_ref_distinct_outputs[{fam}]"), json!(outs.len()));
            if ok && outs.len() > 1 {
                // what varies: positions that are called in some runs only; positions whose ALT string varies
                let all: std::collections::BTreeSet<usize> = called.iter().flat_map(|m| m.keys().copied()).collect();
                let unstable_pos: Vec<usize> = all.iter().copied().filter(|p| !called.iter().all(|m| m.contains_key(p))).collect();
                let unstable_alt: Vec<usize> = all.iter().copied().filter(|p| called.iter().filter_map(|m| m.get(p)).collect::<std::collections::BTreeSet<_>>().len() > 1).collect();
                let groups: Vec<String> = outs.values().map(|v| format!("{v:?}")).collect();
                let all_ind: std::collections::BTreeSet<&String> = indel_recs.iter().flatten().collect();
                let unstable_indels: Vec<String> = all_ind.iter().filter(|r| !indel_recs.iter().all(|s| s.contains(**r))).map(|r| r.chars().take(60).collect()).take(6).collect();
                rep.violate(
                    format!("lo-ref {fam} family: positions called in some runs only {unstable_pos:?}; positions whose ALT order varies {unstable_alt:?}; indel records in some runs only: {}", unstable_indels.len()),
                    format!("ska lo -r ({fam} family) gives {} different results depending on (threads, hash seed): positions called in some runs only {unstable_pos:?}, positions whose ALT field varies {unstable_alt:?}, indel records (CHROM POS ID REF ALT) written in some runs only {unstable_indels:?}; groups {}", outs.len(), groups.join(" vs ")),
                    json!({"cmd": "LoRefSeeds", "family": fam, "unstable_positions": unstable_pos, "unstable_alt": unstable_alt, "groups": groups}),
                );
            }
        }
    }
    if !rep.capped {
        rep.completed.push("(1)+(2) CLI configuration sweep".into());
    }
    rep.sample(json!({"cmd": "MapAlnFa", "n": 10, "threads": "1..16", "hash_seeds": 2, "oracle": "byte-identical to --threads 1"}));
}
