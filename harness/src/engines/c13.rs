//! C13 — weeding removes exactly the k-mers of the weed sequences and nothing else.

use serde_json::{json, Value};

use crate::cli;
use crate::explore::{Ctx, Meta, Report};
use crate::mirror::FileState;
use crate::ops::{self, WeedArgs};
use crate::refmodel::*;
use crate::samples;
use crate::scratch;

pub fn meta() -> Meta {
    Meta {
        id: "C13",
        level: "exploration",
        rule: "real generic_modes::weed (file -> file, --min-freq 0) on built files at k in {7,31,33} (thorough: + 9, 63), both strand modes, the strands-merged file additionally with its rows stored in three different rotations of key order (row order carries no meaning), --reverse on and off, against the model (kept rows = rows whose key is / is not a split k-mer of the weed file): weed sets = every window of length k..k+4 of every sample record on a position grid, every union of two such windows from a reduced grid (this includes a record of length exactly k next to a longer one), each as is / reverse-complemented / with an N substituted / lower-case, plus homopolymer weed sequences (each letter; exactly k, k+2, as first / last / second record) against a file whose samples hold A and C homopolymer stretches, an unrelated sequence, a long record with two N at distances (k-1)/2+2, k-2, k-1, a whole sample and a weed file without any k-mer; every weed FASTA is written in one of four layouts derived from its content (one line; lines of 5; lines of 4 with CRLF; CRLF with header text and no final line end) (must be refused, file unchanged). Every kept row must be byte-identical incl. its stored count, names unchanged; a second application must change nothing; weed and reverse-weed must partition the file. CLI family for in-place vs -o. Non-trivial = the weed set removes at least one and keeps at least one k-mer.".into(),
        assumptions: vec!["--min-freq 0 (the default 0.9 additionally applies a frequency filter, checked under C10)".into()],
        exhaustive_when_uncapped: true,
    }
}

struct File {
    rot: usize,
    seed: u64,
    k: usize,
    rc: bool,
    path: String,
    state: FileState,
    records: Vec<Vec<u8>>,
}

fn variants(seqs: &[Vec<u8>]) -> Vec<(&'static str, Vec<Vec<u8>>)> {
    let mut v = vec![("as-is", seqs.to_vec())];
    v.push(("reverse-complement", seqs.iter().map(|s| rc_str(&upper(s))).collect()));
    v.push((
        "N-substituted",
        seqs.iter()
            .map(|s| {
                let mut t = s.clone();
                let m = t.len() / 2;
                t[m] = b'N';
                t
            })
            .collect(),
    ));
    v.push(("lower-case", seqs.iter().map(|s| s.to_ascii_lowercase()).collect()));
    v
}

fn check_weed(rep: &mut Report, f: &File, seqs: &[Vec<u8>], what: &str) {
    for reverse in [false, true] {
        rep.evaluations += 1;
        // the weed FASTA in one of four layouts (wrapping, CRLF, header text) derived from its content
        let wpath = scratch::write("c13_weed.fa", &scratch::fasta_layout(seqs, scratch::natural_layout(seqs)));
        let out = scratch::path("c13_out.skf");
        let wk = build(seqs, f.k, f.rc);
        // an output file that already exists (and is longer) must be replaced; a refused weed must write nothing
        if wk.is_empty() {
            let _ = std::fs::remove_file(&out);
        } else {
            scratch::stale(&out);
        }
        let want = f.state.table.weed(seqs, reverse);
        let key = || format!("k={} rc={} rot={} reverse={reverse} {what} weed={}", f.k, f.rc, f.rot, seqs.iter().map(|s| String::from_utf8_lossy(s).to_string()).collect::<Vec<_>>().join("|"));
        let case = || json!({"k": f.k, "rc": f.rc, "rot": f.rot, "seed": f.seed, "reverse": reverse, "weed": seqs.iter().map(|s| String::from_utf8_lossy(s).to_string()).collect::<Vec<_>>(), "what": what});
        let res = ops::op_weed(&f.path, &WeedArgs::plain(&wpath, reverse), &out);
        if wk.is_empty() {
            // no k-mer in the weed file: must be refused (nothing written)
            rep.corner("weed_file_without_kmers");
            if res.is_ok() && std::path::Path::new(&out).exists() {
                // accepted: then it must at least be the identity / empty according to the model
                match FileState::read(&out) {
                    Ok(s) if s.table == want => {}
                    _ => rep.violate(key(), "weed file without any k-mer was accepted and changed the table".into(), case()),
                }
            }
            continue;
        }
        let removed = f.state.table.rows.len() - want.rows.len();
        if removed > 0 && !want.rows.is_empty() {
            rep.nontrivial += 1;
        }
        if rep.evaluations % 8 == 0 {
            rep.outcome(&want.rows.keys().collect::<Vec<_>>());
        }
        let got = match res.and_then(|_| FileState::read(&out)) {
            Ok(s) => s,
            Err(e) => {
                rep.violate(key(), format!("weed failed: {}", e.chars().take(160).collect::<String>()), case());
                continue;
            }
        };
        if got.table != want {
            let extra: Vec<&String> = got.table.rows.keys().filter(|k| !want.rows.contains_key(*k)).take(3).collect();
            let missing: Vec<&String> = want.rows.keys().filter(|k| !got.table.rows.contains_key(*k)).take(3).collect();
            rep.violate(key(), format!("{} rows kept, {} expected; wrongly kept {extra:?}, wrongly removed {missing:?}", got.table.rows.len(), want.rows.len()), case());
            continue;
        }
        // stored counts of surviving rows unchanged
        let orig_counts: std::collections::BTreeMap<&String, usize> = f.state.table.rows.keys().zip(f.state.counts.iter().copied()).collect();
        for (kk, c) in got.table.rows.keys().zip(&got.counts) {
            if orig_counts[kk] != *c {
                rep.violate(key(), format!("stored count of surviving k-mer {kk} changed from {} to {c}", orig_counts[kk]), case());
                break;
            }
        }
        // --filter-ambig-as-missing only modifies the frequency filter: at --min-freq 0 (no other filter) it changes nothing
        if rep.evaluations % 3 == 0 {
            let out3 = scratch::path("c13_out3.skf");
            let args = WeedArgs { weed_file: Some(wpath.clone()), reverse, min_freq: 0.0, ambig_missing: true, filt: crate::refmodel::Filt::NoFilter, mask: false, nogap: false };
            rep.corner("weed_with_filter_ambig_as_missing_at_min_freq_0");
            match ops::op_weed(&f.path, &args, &out3).and_then(|_| FileState::read(&out3)) {
                Ok(s3) if s3.table == want => {}
                Ok(s3) => rep.violate(format!("{} ambig-missing", key()), format!("with --filter-ambig-as-missing (and --min-freq 0, no site filter) {} rows are kept, {} without the flag; lost {:?}", s3.table.rows.len(), want.rows.len(), want.rows.keys().filter(|k| !s3.table.rows.contains_key(*k)).take(3).collect::<Vec<_>>()), case()),
                Err(e) => {
                    if !want.rows.is_empty() {
                        rep.violate(format!("{} ambig-missing", key()), format!("weed --filter-ambig-as-missing --min-freq 0 failed: {}", e.chars().take(120).collect::<String>()), case());
                    }
                }
            }
        }
        // idempotence
        let out2 = scratch::path("c13_out2.skf");
        let again = ops::op_weed(&out, &WeedArgs::plain(&wpath, reverse), &out2).and_then(|_| FileState::read(&out2));
        match again {
            Ok(s2) if s2 == got => {}
            Ok(_) => rep.violate(key(), "weeding a second time changes the file".into(), case()),
            Err(e) => {
                // an emptied file may be refused downstream; only flag when rows remain
                if !got.table.rows.is_empty() {
                    rep.violate(key(), format!("second weed failed: {}", e.chars().take(120).collect::<String>()), case());
                }
            }
        }
    }
}

pub fn replay(case: &Value) -> Result<Option<String>, String> {
    let k = case["k"].as_u64().ok_or("k")? as usize;
    let rc = case["rc"].as_bool().ok_or("rc")?;
    let f = make_file(k, rc, case["seed"].as_u64().unwrap_or(0), case["rot"].as_u64().unwrap_or(0) as usize)?;
    let seqs: Vec<Vec<u8>> = case["weed"].as_array().ok_or("weed")?.iter().map(|s| s.as_str().unwrap().as_bytes().to_vec()).collect();
    let mut rep = Report::default();
    check_weed(&mut rep, &f, &seqs, "replay");
    Ok(rep.violations.iter().find(|v| v.case["reverse"] == case["reverse"]).map(|v| v.what.clone()))
}

/// samples that hold homopolymer stretches of A and of C (hence, on the other strand, of T and G)
fn homopolymer_pool(k: usize, seed: u64) -> Vec<Vec<Vec<u8>>> {
    let pre = crate::enumerate::repeat_free(2 * k, k, 0, seed + 771);
    let post = crate::enumerate::repeat_free(2 * k, k, 0, seed + 772);
    let mk = |mid: u8, tail: u8| -> Vec<u8> { [pre.as_slice(), b"G", &vec![b'A'; k + 2], &[mid], &vec![b'C'; k + 1], &[tail], post.as_slice()].concat() };
    let mut pool = samples::pool(k, seed);
    pool[0] = vec![mk(b'G', b'T')];
    pool[1] = vec![mk(b'T', b'T'), pre.clone()];
    pool
}

fn make_file(k: usize, rc: bool, seed: u64, rot: usize) -> Result<File, String> {
    // rot >= 10: the homopolymer pool, rows rotated by rot - 10
    let (pool, rot_rows) = if rot >= 10 { (homopolymer_pool(k, seed), rot - 10) } else { (samples::pool(k, seed), rot) };
    let pick = [0usize, 1, 3, 5];
    let names: Vec<String> = pick.iter().map(|i| format!("s{i}")).collect();
    let paths: Vec<String> = pick.iter().map(|i| scratch::write(&format!("c13_s{i}.fa"), &scratch::fasta(&pool[*i]))).collect();
    let path = scratch::path(&format!("c13_{k}_{rc}_{rot}.skf"));
    ops::op_build(&names, &paths, k, rc, &path)?;
    let state = FileState::read(&path)?;
    // rewrite with a deterministic row order (key order rotated): the stored order is otherwise the
    // builder's hash order, which differs from process to process
    let nrows = state.table.rows.len().max(1);
    state.write_rot(&path, (rot_rows * nrows) / 3 + rot_rows);
    let records: Vec<Vec<u8>> = pick.iter().flat_map(|i| pool[*i].clone()).collect();
    Ok(File { rot, seed, k, rc, path, state, records })
}

pub fn run(ctx: &Ctx, rep: &mut Report) {
    let thorough = ctx.tier.thorough();
    let ks: Vec<usize> = if thorough { vec![7, 9, 31, 33, 63] } else { vec![7, 31, 33] };
    let mut idx = 0u64;
    'all: for k in ks {
        for (rc, rot) in [(true, 0usize), (false, 0), (true, 1), (true, 2)] {
            let f = match make_file(k, rc, ctx.seed, rot) {
                Ok(f) => f,
                Err(e) => {
                    rep.machinery(format!("C13 cannot build start file: {e}"));
                    continue;
                }
            };
            let step = if k <= 9 || thorough { 1 } else { 3 };
            // single windows
            let mut wins: Vec<Vec<u8>> = Vec::new();
            for r in &f.records {
                let u = upper(r);
                for len in k..=(k + 4) {
                    let mut s = 0;
                    while s + len <= u.len() {
                        if !u[s..s + len].contains(&b'N') {
                            wins.push(u[s..s + len].to_vec());
                        }
                        s += step;
                    }
                }
            }
            for w in &wins {
                idx += 1;
                if !ctx.mine(idx) {
                    continue;
                }
                for (what, seqs) in variants(&[w.clone()]) {
                    check_weed(rep, &f, &seqs, what);
                }
                if ctx.expired() {
                    rep.capped = true;
                    break 'all;
                }
            }
            // unions of two from a reduced grid: exact-k windows x (k+2)-windows
            let exact: Vec<&Vec<u8>> = wins.iter().filter(|w| w.len() == k).step_by(if thorough { 2 } else { 5 }).collect();
            let longer: Vec<&Vec<u8>> = wins.iter().filter(|w| w.len() == k + 2).step_by(if thorough { 3 } else { 7 }).collect();
            for a in &exact {
                for b in &longer {
                    idx += 1;
                    if !ctx.mine(idx) {
                        continue;
                    }
                    check_weed(rep, &f, &[(*a).clone(), (*b).clone()], "union exact-k + longer");
                    check_weed(rep, &f, &[(*b).clone(), rc_str(a)], "union longer + rc exact-k");
                    rep.corner("record_of_length_exactly_k_next_to_longer");
                }
                if ctx.expired() {
                    rep.capped = true;
                    break 'all;
                }
            }
            // special weed sets
            idx += 1;
            if ctx.mine(idx) {
                let unrelated = crate::enumerate::repeat_free(2 * k, k, 0, ctx.seed + 991);
                check_weed(rep, &f, &[unrelated], "unrelated");
                check_weed(rep, &f, &f.records.clone(), "everything");
                check_weed(rep, &f, &[f.records[0].clone()], "whole sample");
                check_weed(rep, &f, &[b"ACG".to_vec()], "no k-mer");
                check_weed(rep, &f, &[vec![b'N'; k + 2]], "only N");
                // a long weed record with two N at distances (k-1)/2+2 and k-1 (a window restarted twice in a row)
                for d in [(k - 1) / 2 + 2, k - 1, k - 2] {
                    let mut r = upper(&f.records[0]);
                    if r.len() > 4 + d + k {
                        r[3] = b'N';
                        r[4 + d] = b'N';
                        check_weed(rep, &f, &[r.clone()], "two N in a long record");
                        check_weed(rep, &f, &[rc_str_n(&r)], "two N in a long record, reverse complement");
                    }
                }
                rep.corner("matches_everything");
            }
            // homopolymer weed sequences against a file that holds homopolymer stretches: the split k-mer with all-A
            // arms is the all-zero word, its reverse complement the all-T one; first, last and only k-mer of the file
            if rot == 0 {
                idx += 1;
                if ctx.mine(idx) {
                    match make_file(k, rc, ctx.seed, 10) {
                        Ok(hf) => {
                            let flank = crate::enumerate::repeat_free(k + 3, k, 0, ctx.seed + 773);
                            for l in *b"ACGT" {
                                let run = |n: usize| vec![l; n];
                                check_weed(rep, &hf, &[run(k)], "homopolymer, exactly k");
                                check_weed(rep, &hf, &[run(k + 2)], "homopolymer, k+2");
                                check_weed(rep, &hf, &[[run(k + 1), flank.clone()].concat()], "homopolymer first, then other k-mers");
                                check_weed(rep, &hf, &[[flank.clone(), run(k + 1)].concat()], "other k-mers first, homopolymer last");
                                check_weed(rep, &hf, &[flank.clone(), run(k)], "homopolymer as second record");
                                check_weed(rep, &hf, &[run(k), hf.records[0].clone()], "homopolymer record, then a whole sample");
                                rep.corner("homopolymer_weed_sequences");
                            }
                        }
                        Err(e) => rep.machinery(format!("C13 cannot build the homopolymer file: {e}")),
                    }
                }
            }
            // CLI: in place vs -o
            idx += 1;
            if ctx.mine(idx) {
                let dir = scratch::path("c13cli");
                let _ = std::fs::create_dir_all(&dir);
                let w = wins[wins.len() / 2].clone();
                std::fs::write(format!("{dir}/w.fa"), scratch::fasta_layout(&[w.clone()], scratch::natural_layout(&[w.clone()]))).unwrap();
                for reverse in [false, true] {
                    for inplace in [true, false] {
                        rep.evaluations += 1;
                        rep.corner("cli_weed");
                        std::fs::copy(&f.path, format!("{dir}/x.skf")).unwrap();
                        let mut args = vec!["weed", "x.skf", "w.fa", "--min-freq", "0"];
                        if reverse {
                            args.push("--reverse");
                        }
                        if !inplace {
                            args.extend(["-o", "y.skf"]);
                        }
                        let o = cli::run(&args, &dir, None);
                        let got = FileState::read(&format!("{dir}/{}", if inplace { "x.skf" } else { "y.skf" }));
                        let want = f.state.table.weed(&[w.clone()], reverse);
                        if o.code != 0 || got.as_ref().map(|g| &g.table) != Ok(&want) {
                            rep.violate(format!("cli weed k={k} rc={rc} reverse={reverse} inplace={inplace}"), format!("ska weed exit {}: result differs from the model", o.code), json!({"cli": true, "k": k, "rc": rc}));
                        }
                        if !inplace && std::fs::read(format!("{dir}/x.skf")).ok() != std::fs::read(&f.path).ok() {
                            rep.violate(format!("cli weed -o touches input k={k}"), "ska weed -o modified its input".into(), json!({"cli": true, "k": k}));
                        }
                    }
                }
                // refusal leaves the file alone
                std::fs::write(format!("{dir}/empty.fa"), b">x\nACG\n").unwrap();
                std::fs::copy(&f.path, format!("{dir}/x.skf")).unwrap();
                let o = cli::run(&["weed", "x.skf", "empty.fa", "--min-freq", "0"], &dir, None);
                let same = std::fs::read(format!("{dir}/x.skf")).ok() == std::fs::read(&f.path).ok();
                let still = FileState::read(&format!("{dir}/x.skf")).map(|s| s.table == f.state.table).unwrap_or(false);
                if !(o.code != 0 && same) && !(o.code == 0 && still) {
                    rep.violate(format!("cli weed without k-mers k={k} rc={rc}"), format!("weed file without k-mers: exit {} and file {}", o.code, if same { "unchanged" } else { "changed" }), json!({"cli": true, "k": k, "rc": rc, "empty": true}));
                }
            }
            rep.completed.push(format!("k={k} rc={rc} row-order {rot}"));
        }
    }
    rep.sample(json!({"k": 7, "weed": ["<window of 7 letters of sample s0>", "<window of 9 letters>"], "checks": "kept rows = model; counts unchanged; second weed = identity; both --reverse settings"}));
}
