//! C17 — ska lo SNP calls are real, complete for isolated SNPs, and well formed.

use serde_json::{json, Value};

use super::lo::{self, SnpCase};
use crate::explore::{Ctx, Meta, Report};
use crate::refmodel::*;
use crate::scratch;

pub fn meta() -> Meta {
    Meta {
        id: "C17",
        level: "exploration",
        rule: "planted-SNP families through `ska build` + `ska lo` (CLI, --threads 1..4 and one of five -d / -n settings chosen per case, hash seeds owned by the shim: 2 quick / 3 thorough): ancestors of length 10k+1 whose (k-1)-mers are unique on both strands; k in {7,9,15,21,31,33} (thorough: every odd k in 7..33); sites = every non-empty subset of the grid {3k, 5k, 7k+1} (spacing exactly 2k and 2k+1, margins 3k); allele assignments = every biallelic split for n=3,4,5 samples, every triallelic assignment for n=3 (thorough: n=4) and carrier patterns for n=6,10 (thorough: 8); sample orientations; without reference and (k>=15) with the ancestor or (every second case) its reverse complement as reference (every third reference carrying a run of 2 or 6 N before the first site or at its start), the reference file laid out in one of four ways chosen per case (one line; lines of 60; lines of 70 with CRLF; header with description, lines of 50, no final newline); -m in {0, 0.1, 0.2}. Oracle without reference: the column multiset modulo whole-column complement equals the planted one. With reference: the same completeness of the SNP alignment, and every VCF record lies at a planted site, REF is the ancestor base, every given genotype decodes to that sample's true base, pseudo-genomes have the ancestor's length and agree with each sample at every called position. Longer ancestors (30k; k in {15,21,31}, three full ancestors and four (thorough 24) more with fewer assignments; arrangements also mirrored; the reference given in both orientations) with a dense run of three sites 2k apart plus one or two distant sites, every biallelic assignment for four samples, with and without reference. Long dense runs (k in {15,17,21}): 6, 8, 9, 10 and 12 sites exactly 2k apart, four (thorough 12) ancestors each, two assignments, with and without reference. Sequence-end family (k in {7,15,31}): a site exactly k-1, k, k+1, 2k-1 bases from either end is called; sites closer than k-1 are not called by the pinned tool (listed in known_findings.txt). Repeated-arms family (k in {9,15,21,31,33}): the same two arms around 2..4 different middle bases (every ambiguity code of 2..4 bases stored in every sample), a planted site inside the arm of each copy in turn plus a distant one. Well-formedness family outside the premise (SNP pairs at every distance 1..2k, SNP next to an indel, three alleles at adjacent sites, a sample lacking a region): equal sequence lengths, >= 2 distinct A/C/G/T per column, missing fraction <= m. Cases whose derived samples break (k-1)-mer uniqueness are trivial and not judged for completeness. Every 48th case is repeated through the dev-profile build of the CLI (arithmetic overflow checks on) and must get the same verdict.".into(),
        assumptions: vec!["hash-seed space is a declared finite set (2/3 seeds); thread counts are C11's".into(), "release-profile arithmetic (DESIGN §2)".into()],
        exhaustive_when_uncapped: true,
    }
}

fn case_json(c: &SnpCase, with_ref: bool, m: &str, seed: u64) -> Value {
    json!({"k": c.k, "ancestor": String::from_utf8_lossy(&c.ancestor), "sites": c.sites, "alleles": c.alleles, "flip": c.flip, "with_ref": with_ref, "m": m, "hash_seed": seed, "ref_orient": lo::REF_ORIENT.load(std::sync::atomic::Ordering::Relaxed)})
}

pub fn well_formed(o: &lo::LoOut, n: usize, m: f32) -> Result<(), String> {
    if !o.snp_names.is_empty() && o.snp_names != lo::sample_names(n) {
        return Err(format!("the SNP alignment lists the samples {:?}, the input holds {:?}", o.snp_names, lo::sample_names(n)));
    }
    if o.snp_seqs.len() != n {
        return Err(format!("{} sequences in the SNP alignment for {n} samples", o.snp_seqs.len()));
    }
    let l = o.snp_seqs[0].len();
    if o.snp_seqs.iter().any(|s| s.len() != l) {
        return Err("SNP alignment sequences of unequal length".into());
    }
    for i in 0..l {
        let col: Vec<u8> = o.snp_seqs.iter().map(|s| s[i]).collect();
        let distinct: std::collections::BTreeSet<u8> = col.iter().copied().filter(|b| matches!(b, b'A' | b'C' | b'G' | b'T')).collect();
        if distinct.len() < 2 {
            return Err(format!("column {i} ({}) has fewer than two distinct A/C/G/T alleles", String::from_utf8_lossy(&col)));
        }
        let missing = col.iter().filter(|b| !matches!(b, b'A' | b'C' | b'G' | b'T')).count();
        if missing as f32 / n as f32 > m + 1e-6 {
            return Err(format!("column {i} ({}) has {missing}/{n} missing samples, more than the allowed fraction {m}", String::from_utf8_lossy(&col)));
        }
    }
    if let Some((_, p)) = &o.pseudo {
        if !p.is_empty() && p.iter().any(|s| s.len() != p[0].len()) {
            return Err("pseudo-genomes of unequal length".into());
        }
    }
    Ok(())
}

/// Ok(true): judged; Ok(false): trivial
pub fn check(c: &SnpCase, with_ref: bool, m: &str, seed: u64, dir: &str) -> Result<bool, String> {
    let n = c.n();
    let mval: f32 = m.parse().unwrap();
    let samples = c.samples();
    // the reference file's layout (line width, line ends, header text) is derived from the case, so that a replay
    // writes the same file
    let dress = (crate::explore::hash64(&(&c.sites, &c.alleles, seed)) % 4) as usize;
    lo::REF_DRESS.store(dress, std::sync::atomic::Ordering::Relaxed);
    // thread count 1..4 derived from the case too (the brief's quantifier goes to 8; C11 sweeps 1..16)
    let threads = 1 + (crate::explore::hash64(&(&c.alleles, &c.sites, c.k)) % 4) as usize;
    // the reference is the ancestor or (every second case) its reverse complement: coordinates and bases mirror
    let ref_rc = with_ref
        && match lo::REF_ORIENT.load(std::sync::atomic::Ordering::Relaxed) {
            1 => false,
            2 => true,
            _ => crate::explore::hash64(&(&c.sites, &c.flip, c.k)) % 2 == 1,
        };
    let mut reference: Vec<u8> = if ref_rc { rc_str(&c.ancestor) } else { c.ancestor.clone() };
    // every third reference case carries a run of N (2 or 6 long, inside the sequence or at its very start) well before
    // the first site: coordinates behind it must still be the true ones
    if with_ref {
        let hsh = crate::explore::hash64(&(&c.sites, &c.alleles, c.k, ref_rc));
        let r = if hsh % 2 == 0 { 2 } else { 6 };
        let start = if (hsh / 2) % 2 == 0 { c.k } else { 0 };
        let first_site = c.sites.iter().map(|p| if ref_rc { reference.len() - 1 - p } else { *p }).min().unwrap_or(0);
        if hsh % 3 == 0 && first_site >= start + r + 2 * c.k {
            for b in reference[start..start + r].iter_mut() {
                *b = b'N';
            }
        }
    }
    // -d (branchings allowed along a path) and -n (indel k-mers allowed inside a variant) do not matter for isolated
    // substitutions: one of five settings per case, derived from the case
    let extras: [Vec<&str>; 5] = [vec!["-m", m], vec!["-m", m, "-d", "1"], vec!["-m", m, "-d", "9"], vec!["-m", m, "-n", "0"], vec!["-m", m, "-n", "7", "-d", "4"]];
    let extra: &[&str] = &extras[(crate::explore::hash64(&(&c.sites, c.k, &c.alleles)) % 5) as usize];
    let o = lo::run_lo(dir, c.k, &samples, if with_ref { Some(&reference) } else { None }, extra, threads, Some(seed));
    lo::REF_DRESS.store(0, std::sync::atomic::Ordering::Relaxed);
    let o = o?;
    let premise = c.premise();
    if o.code != 0 {
        return if premise { Err(format!("ska lo exits {} {}", o.code, o.stderr_tail)) } else { Ok(false) };
    }
    well_formed(&o, n, mval)?;
    if !premise {
        return Ok(false);
    }
    let planted = c.planted_columns();
    if !with_ref {
        let got = lo::snp_columns(&o)?;
        if got != planted {
            let show = |v: &Vec<Vec<u8>>| v.iter().map(|x| String::from_utf8_lossy(x).to_string()).collect::<Vec<_>>().join(" ");
            return Err(format!("SNP columns [{}] but the planted sites give [{}]", show(&got), show(&planted)));
        }
        return Ok(true);
    }
    // reference mode: the SNP alignment is as complete as without a reference ("exactly one column per substituted
    // site" is said of `ska lo` as such) ...
    {
        let got = lo::snp_columns(&o)?;
        if got != planted {
            let show = |v: &Vec<Vec<u8>>| v.iter().map(|x| String::from_utf8_lossy(x).to_string()).collect::<Vec<_>>().join(" ");
            return Err(format!("with a reference: SNP columns [{}] but the planted sites give [{}]", show(&got), show(&planted)));
        }
    }
    // ... and every record is sound
    let vcf = o.snps_vcf.clone().ok_or("no SNP VCF written in reference mode")?;
    let (_, pseudo) = o.pseudo.clone().ok_or("no pseudo-genomes written in reference mode")?;
    if pseudo.len() != n || pseudo.iter().any(|p| p.len() != c.ancestor.len()) {
        return Err(format!("pseudo-genomes: {} sequences of length {:?}, expected {n} of length {}", pseudo.len(), pseudo.first().map(|p| p.len()), c.ancestor.len()));
    }
    let mut called = std::collections::BTreeSet::new();
    let names = lo::sample_names(n);
    if o.pseudo.as_ref().map(|p| &p.0) != Some(&names) {
        return Err(format!("pseudo-genomes are named {:?}, the samples are {names:?}", o.pseudo.as_ref().map(|p| p.0.clone())));
    }
    let gt_col = lo::gt_order(&vcf, &names).map_err(|e| format!("SNP VCF: {e}"))?;
    for l in vcf.lines() {
        if l.starts_with('#') || l.is_empty() {
            continue;
        }
        let f: Vec<&str> = l.split('\t').collect();
        if f.len() < 9 + n {
            return Err(format!("short VCF record {l:?}"));
        }
        let pos: usize = f[1].parse().map_err(|_| "POS")?;
        if pos == 0 || pos > reference.len() {
            return Err(format!("VCF position {pos} outside the reference"));
        }
        let pr = pos - 1;
        // the same site in ancestor coordinates
        let p0 = if ref_rc { reference.len() - 1 - pr } else { pr };
        let orient = |b: u8| if ref_rc { comp(b) } else { b };
        if !c.sites.contains(&p0) {
            return Err(format!("VCF record at position {pos} (reference {}) which is not a planted site {:?} (+1, ancestor coordinates)", if ref_rc { "= reverse complement of the ancestor" } else { "= ancestor" }, c.sites));
        }
        if !called.insert(pr) {
            return Err(format!("two VCF records at position {pos}"));
        }
        if f[3].as_bytes() != [reference[pr]] {
            return Err(format!("REF {} at {pos}, the reference base is {}", f[3], reference[pr] as char));
        }
        let mut alleles: Vec<&str> = vec![f[3]];
        alleles.extend(f[4].split(',').filter(|a| !a.is_empty() && *a != "."));
        for i in 0..n {
            let truth = orient(c.sample_seq(i)[p0]);
            let g = f[9 + gt_col[i]];
            if g != "." {
                let ai: usize = g.parse().map_err(|_| format!("GT {g}"))?;
                let a = alleles.get(ai).ok_or(format!("GT {g} without allele"))?;
                if a.as_bytes() != [truth] {
                    return Err(format!("sample {i} genotyped {a} at {pos}, its true base is {}", truth as char));
                }
            }
            let pg = pseudo[i][pr];
            if matches!(pg, b'A' | b'C' | b'G' | b'T') && pg != truth {
                return Err(format!("pseudo-genome of sample {i} has {} at called position {pos}, the sample has {}", pg as char, truth as char));
            }
        }
    }
    // away from called positions the pseudo-genome is the reference
    for (i, p) in pseudo.iter().enumerate() {
        for (q, b) in p.iter().enumerate() {
            if !called.contains(&q) && *b != reference[q] {
                return Err(format!("pseudo-genome of sample {i} differs from the reference at uncalled position {}", q + 1));
            }
        }
    }
    Ok(true)
}

pub fn replay(v: &Value) -> Result<Option<String>, String> {
    if v.get("wf").is_some() {
        return Err("well-formedness family: rerun ./check C17".into());
    }
    let c = SnpCase {
        k: v["k"].as_u64().ok_or("k")? as usize,
        ancestor: v["ancestor"].as_str().ok_or("ancestor")?.as_bytes().to_vec(),
        sites: v["sites"].as_array().ok_or("sites")?.iter().map(|x| x.as_u64().unwrap() as usize).collect(),
        alleles: v["alleles"].as_array().ok_or("alleles")?.iter().map(|a| a.as_array().unwrap().iter().map(|x| x.as_u64().unwrap() as u8).collect()).collect(),
        flip: v["flip"].as_array().ok_or("flip")?.iter().map(|x| x.as_bool().unwrap()).collect(),
    };
    lo::REF_ORIENT.store(v["ref_orient"].as_u64().unwrap_or(0) as usize, std::sync::atomic::Ordering::Relaxed);
    let r = check(&c, v["with_ref"].as_bool().unwrap_or(false), v["m"].as_str().unwrap_or("0.1"), v["hash_seed"].as_u64().unwrap_or(0), &scratch::path("c17"));
    lo::REF_ORIENT.store(0, std::sync::atomic::Ordering::Relaxed);
    match r {
        Err(e) if e.starts_with("MACHINERY") => Err(e),
        Err(e) => Ok(Some(e)),
        Ok(_) => Ok(None),
    }
}

pub fn assignments(n: usize, tri: bool) -> Vec<Vec<u8>> {
    let mut v = Vec::new();
    if n <= 5 {
        let alpha: &[u8] = if tri { &[0, 1, 2] } else { &[0, 1] };
        crate::enumerate::strings(alpha, n, |a| {
            let d: std::collections::BTreeSet<u8> = a.iter().copied().collect();
            if (tri && d.len() == 3) || (!tri && d.len() == 2) {
                v.push(a.to_vec());
            }
            true
        });
    } else {
        let mut one = vec![0u8; n];
        one[n / 3] = 1;
        v.push(one);
        v.push((0..n).map(|i| (i % 2) as u8).collect());
        v.push((0..n).map(|i| if i == 1 { 0 } else { 1 }).collect());
    }
    v
}

pub fn run(ctx: &Ctx, rep: &mut Report) {
    let thorough = ctx.tier.thorough();
    let ks: Vec<usize> = if thorough { (7..=33).step_by(2).collect() } else { vec![7, 9, 15, 21, 31, 33] };
    let seeds: Vec<u64> = if thorough { (0..3).map(|i| ctx.seed + i).collect() } else { vec![ctx.seed, ctx.seed + 1] };
    let dir = scratch::path("c17");
    let mut idx = 0u64;
    'all: for k in ks {
        let anc = lo::ancestor(10 * k + 1, k, ctx.seed + 17);
        let grid = [3 * k, 5 * k, 7 * k + 1];
        for ss in crate::enumerate::subsets(3, 1, 3) {
            let sites: Vec<usize> = ss.iter().map(|i| grid[*i]).collect();
            let mut plans: Vec<(usize, bool)> = vec![(3, false), (4, false), (5, false), (3, true), (6, false), (10, false)];
            if thorough {
                plans.push((4, true));
                plans.push((8, false));
            }
            for (n, tri) in plans {
                let asg = assignments(n, tri);
                for (ai, a) in asg.iter().enumerate() {
                    let orients: Vec<Vec<bool>> = if n <= 3 {
                        (0..(1u32 << n)).map(|m| (0..n).map(|i| m & (1 << i) != 0).collect()).collect()
                    } else if thorough && n == 4 && !tri {
                        vec![vec![false; n], vec![true; n], (0..n).map(|i| i % 2 == 0).collect(), (0..n).map(|i| i == 2).collect()]
                    } else {
                        vec![vec![false; n], (0..n).map(|i| i % 2 == 0).collect()]
                    };
                    for (oi, flip) in orients.into_iter().enumerate() {
                        if !thorough && n == 3 && oi % 2 == 1 {
                            continue;
                        }
                        idx += 1;
                        if !ctx.mine(idx) {
                            continue;
                        }
                        let alleles: Vec<Vec<u8>> = (0..sites.len()).map(|j| asg[(ai + j * 5) % asg.len()].clone()).collect();
                        let _ = a;
                        let c = SnpCase { k, ancestor: anc.clone(), sites: sites.clone(), alleles, flip };
                        let m = ["0", "0.1", "0.2"][(ai + oi) % 3];
                        let refs: Vec<bool> = if k >= 15 { vec![false, true] } else { vec![false] };
                        for with_ref in refs {
                            for s in &seeds {
                                rep.evaluations += 1;
                                match check(&c, with_ref, m, *s, &dir) {
                                    Ok(true) => {
                                        rep.nontrivial += 1;
                                        rep.outcome(&(c.planted_columns(), with_ref));
                                        if tri {
                                            rep.corner("triallelic_site");
                                        }
                                        if with_ref {
                                            rep.corner("reference_mode");
                                        }
                                    }
                                    Ok(false) => rep.corner("premise_not_met"),
                                    Err(e) if e.starts_with("MACHINERY") => rep.machinery(e),
                                    Err(e) => {
                                        let j = case_json(&c, with_ref, m, *s);
                                        rep.violate(format!("k={k} n={n} sites={sites:?} alleles={:?} flip={:?} ref={with_ref}", c.alleles, c.flip), format!("k={k} n={n} sites={sites:?} ref={with_ref} -m {m} seed {s}: {e}"), j);
                                    }
                                }
                            }
                        }
                        // every 48th case once more through the dev-profile build (overflow checks on): same verdict
                        if idx % 48 == 0 && crate::cli::debug_exe().is_some() {
                            let with_ref = k >= 15 && idx % 96 == 0;
                            let rel = check(&c, with_ref, m, ctx.seed, &dir);
                            crate::cli::set_debug_profile(true);
                            let dbg = check(&c, with_ref, m, ctx.seed, &dir);
                            rep.evaluations += 1;
                            rep.corner("case_repeated_with_overflow_checked_build");
                            match (&rel, &dbg) {
                                (_, Err(e)) if e.starts_with("MACHINERY") => rep.machinery(e.clone()),
                                (Ok(_), Err(e)) => {
                                    let j = case_json(&c, with_ref, m, ctx.seed);
                                    rep.violate(format!("k={k} n={n} sites={sites:?} alleles={:?} flip={:?} ref={with_ref}", c.alleles, c.flip), format!("k={k} n={n} sites={sites:?} ref={with_ref} -m {m}: {e}"), j);
                                }
                                _ => {}
                            }
                            crate::cli::set_debug_profile(false);
                        }
                        if rep.evaluations % 900 == 7 {
                            rep.sample(case_json(&c, false, m, ctx.seed));
                        }
                        if ctx.expired() {
                            rep.capped = true;
                            break 'all;
                        }
                    }
                }
            }
        }
        rep.completed.push(format!("planted SNPs k={k}"));
    }
    rep.sample(json!({"k": 15, "sites": [45, 75], "alleles": [[0, 1, 1], [1, 0, 1]], "flip": [false, true, false], "with_ref": true, "m": "0.1", "oracle": "every VCF record at a planted site with REF = ancestor base and true genotypes; pseudo-genomes agree"}));
    // longer ancestors with four or five sites: a dense run of three sites exactly 2k apart plus one or two sites far
    // away (before or behind it), every biallelic assignment for four samples, reference-free and (reference in either
    // orientation) with reference
    if !rep.capped {
        let mut members: Vec<(usize, u64)> = vec![(15, 0), (21, 0), (31, 0)];
        for m in 1..=(if thorough { 24u64 } else { 4 }) {
            members.push(([21usize, 15, 31][(m % 3) as usize], m));
        }
        for (k, member) in members {
            // several ancestors per k: which strand copy of a group wins a tie depends on the sequence
            let anc = lo::ancestor(30 * k, k, ctx.seed + 24 + 7 * member);
            let asg = assignments(4, false);
            let mut pending_json: Option<Value> = None;
            // every arrangement also mirrored (site p -> L-1-p): which strand copy of a group wins a tie depends on the
            // sequence, and the mirrored arrangement meets the other outcome
            let base_sets: Vec<Vec<usize>> = vec![vec![3 * k, 5 * k, 7 * k, 15 * k], vec![3 * k, 5 * k, 7 * k, 15 * k, 19 * k + 3], vec![3 * k, 11 * k, 13 * k, 15 * k], vec![4 * k, 6 * k + 1, 8 * k + 2, 13 * k, 21 * k], vec![2 * k, 4 * k, 6 * k, 18 * k - 2, 25 * k + 1]];
            let mut site_sets: Vec<Vec<usize>> = Vec::new();
            for (bi, b) in base_sets.iter().enumerate() {
                site_sets.push(b.clone());
                if thorough || (bi + member as usize) % 3 == 0 {
                    let mut m: Vec<usize> = b.iter().map(|p| anc.len() - 1 - p).collect();
                    m.sort();
                    site_sets.push(m);
                }
            }
            for sites in site_sets {
                for (ai, _) in asg.iter().enumerate() {
                    if member > 0 && ai % 5 != 0 {
                        continue;
                    }
                    for flip in [vec![false; 4], vec![false, true, true, false]] {
                        if member > 0 && flip[1] {
                            continue;
                        }
                        idx += 1;
                        if !ctx.mine(idx) {
                            continue;
                        }
                        let alleles: Vec<Vec<u8>> = (0..sites.len()).map(|j| asg[(ai + j * 3) % asg.len()].clone()).collect();
                        let c = SnpCase { k, ancestor: anc.clone(), sites: sites.clone(), alleles, flip: flip.clone() };
                        // reference-free, reference = ancestor, reference = its reverse complement
                        for (with_ref, orient) in [(false, 0usize), (true, 1), (true, 2)] {
                            if member > 0 && !with_ref {
                                continue;
                            }
                            rep.evaluations += 1;
                            lo::REF_ORIENT.store(orient, std::sync::atomic::Ordering::Relaxed);
                            let verdict = check(&c, with_ref, "0.1", ctx.seed, &dir);
                            let verdict = verdict.map_err(|e| (e, case_json(&c, with_ref, "0.1", ctx.seed)));
                            lo::REF_ORIENT.store(0, std::sync::atomic::Ordering::Relaxed);
                            match verdict.map_err(|(e, j)| { pending_json = Some(j); e }) {
                                Ok(true) => {
                                    rep.nontrivial += 1;
                                    rep.corner("dense_run_plus_distant_sites");
                                    rep.outcome(&(c.planted_columns(), with_ref, k));
                                }
                                Ok(false) => rep.corner("premise_not_met"),
                                Err(e) if e.starts_with("MACHINERY") => rep.machinery(e),
                                Err(e) => {
                                    let j = pending_json.take().unwrap_or_else(|| case_json(&c, with_ref, "0.1", ctx.seed));
                                    rep.violate(format!("dense+distant k={k} member={member} sites={sites:?} alleles={:?} flip={:?} ref={with_ref} orient={orient}", c.alleles, c.flip), format!("k={k} sites={sites:?} reference {}: {e}", ["none", "= ancestor", "= reverse complement of the ancestor"][orient]), j);
                                }
                            }
                        }
                        if ctx.expired() {
                            rep.capped = true;
                        }
                    }
                }
            }
        }
        if !rep.capped {
            rep.completed.push("dense run plus distant sites".into());
        }
    }
    // long dense runs: 6, 8, 9, 10 and 12 sites exactly 2k apart (groups of several SNPs overlap along the whole run),
    // several ancestors per k, reference-free and with the ancestor as reference
    if !rep.capped {
        for k in [15usize, 17, 21] {
            for m in [6usize, 8, 9, 10, 12] {
                for member in 0..(if thorough { 12u64 } else { 4 }) {
                    idx += 1;
                    if !ctx.mine(idx) {
                        continue;
                    }
                    let anc = lo::ancestor((2 * m + 6) * k, k, ctx.seed + 600 + 31 * member + m as u64);
                    let sites: Vec<usize> = (0..m).map(|j| 3 * k + 2 * k * j).collect();
                    let asg = assignments(4, false);
                    for a0 in [member as usize, member as usize + 5] {
                        let alleles: Vec<Vec<u8>> = (0..m).map(|j| asg[(a0 + j * 3) % asg.len()].clone()).collect();
                        let c = SnpCase { k, ancestor: anc.clone(), sites: sites.clone(), alleles, flip: vec![false, a0 % 2 == 1, false, false] };
                        for with_ref in [false, true] {
                            rep.evaluations += 1;
                            if with_ref {
                                lo::REF_ORIENT.store(1, std::sync::atomic::Ordering::Relaxed);
                            }
                            let verdict = check(&c, with_ref, "0.1", ctx.seed, &dir);
                            lo::REF_ORIENT.store(0, std::sync::atomic::Ordering::Relaxed);
                            match verdict {
                                Ok(true) => {
                                    rep.nontrivial += 1;
                                    rep.corner("long_dense_run");
                                    rep.outcome(&(c.planted_columns(), with_ref, k));
                                }
                                Ok(false) => rep.corner("premise_not_met"),
                                Err(e) if e.starts_with("MACHINERY") => rep.machinery(e),
                                Err(e) => rep.violate(format!("dense run k={k} m={m} member={member} a0={a0} ref={with_ref}"), format!("k={k}, {m} sites exactly 2k apart, reference {}: {e}", if with_ref { "= ancestor" } else { "none" }), case_json(&c, with_ref, "0.1", ctx.seed)),
                            }
                        }
                    }
                    if ctx.expired() {
                        rep.capped = true;
                    }
                }
            }
        }
        if !rep.capped {
            rep.completed.push("long dense runs".into());
        }
    }
    // sites near the sequence ends. The statement sets no margin; `ska lo` needs k-1 bases of context on both sides of a
    // site (a bubble is anchored by a (k-1)-mer on each side). Distances k-1, k, k+1, 2k-1 from either end must be
    // called; a site closer than k-1 to an end is not called by the pinned tool — reported under its own key, which
    // known_findings.txt lists (any other discrepancy at such a site is reported as usual).
    if !rep.capped {
        for k in [7usize, 15, 31] {
            let h = (k - 1) / 2;
            let anc = lo::ancestor(10 * k + 1, k, ctx.seed + 23);
            let len = anc.len();
            for (d, callable) in [(k - 1, true), (k, true), (k + 1, true), (2 * k - 1, true), (0usize, false), (1, false), (h, false), (k - 2, false)] {
                for at_end in [false, true] {
                    idx += 1;
                    if !ctx.mine(idx) {
                        continue;
                    }
                    let p = if at_end { len - 1 - d } else { d };
                    let c = SnpCase { k, ancestor: anc.clone(), sites: vec![p, 5 * k], alleles: vec![vec![0, 1, 1, 0], vec![1, 1, 0, 0]], flip: vec![false, true, false, false] };
                    rep.evaluations += 1;
                    if callable {
                        match check(&c, false, "0", ctx.seed, &dir) {
                            Ok(true) => {
                                rep.nontrivial += 1;
                                rep.corner("site_exactly_k-1_or_more_from_a_sequence_end");
                            }
                            Ok(false) => rep.corner("premise_not_met"),
                            Err(e) if e.starts_with("MACHINERY") => rep.machinery(e),
                            Err(e) => rep.violate(format!("site {d} from the {} k={k}", if at_end { "end" } else { "start" }), format!("k={k}: site {d} bases from the sequence {}: {e}", if at_end { "end" } else { "start" }), case_json(&c, false, "0", ctx.seed)),
                        }
                    } else {
                        let o = match lo::run_lo(&dir, k, &c.samples(), None, &["-m", "0"], 1, Some(ctx.seed)) {
                            Ok(o) => o,
                            Err(e) => {
                                rep.machinery(e);
                                continue;
                            }
                        };
                        if !c.premise() {
                            rep.corner("premise_not_met");
                            continue;
                        }
                        rep.nontrivial += 1;
                        let planted = c.planted_columns();
                        let near_end = lo::canon_col(&(0..c.n()).map(|i| lo::alt_base(anc[p], c.alleles[0][i])).collect::<Vec<u8>>());
                        let without: Vec<Vec<u8>> = {
                            let mut v = planted.clone();
                            if let Some(i) = v.iter().position(|x| *x == near_end) {
                                v.remove(i);
                            }
                            v
                        };
                        let got = if o.code == 0 { lo::snp_columns(&o).unwrap_or_default() } else { vec![] };
                        if got == planted {
                            rep.corner("site_closer_than_k-1_to_an_end_is_called");
                        } else if o.code == 0 && got == without {
                            rep.corner("site_closer_than_k-1_to_an_end_is_not_called");
                            rep.violate(
                                format!("site-closer-than-k-1-to-a-sequence-end k={k} d={d} at_end={at_end}"),
                                format!("k={k}: the substitution {d} bases from the sequence {} (fewer than k-1 bases of context) is not reported; the other planted site is", if at_end { "end" } else { "start" }),
                                json!({"wf": "site near a sequence end", "k": k, "d": d, "at_end": at_end}),
                            );
                        } else {
                            rep.violate(format!("near-end site k={k} d={d} at_end={at_end}: other discrepancy"), format!("k={k}: site {d} bases from the sequence {}: exit {} and {} columns, neither all planted sites nor all but the one near the end", if at_end { "end" } else { "start" }, o.code, got.len()), json!({"wf": "site near a sequence end (other)", "k": k, "d": d, "at_end": at_end}));
                        }
                    }
                }
            }
        }
        rep.completed.push("sites near the sequence ends".into());
    }
    // repeated arms: the ancestor holds the same two arms L, R around different middle bases at 2..4 places (all
    // (k-1)-mers stay unique, each contains the middle base), so every sample stores an ambiguity code for L.R — every
    // code with 2..4 bases; one planted site lies inside the arm of each copy in turn, one far away
    if !rep.capped {
        for k in [9usize, 15, 21, 31, 33] {
            let h = (k - 1) / 2;
            let long = lo::ancestor(24 * k, k, ctx.seed + 19);
            let arms = lo::ancestor(4 * k, k, ctx.seed + 20);
            let (l, r) = (arms[k..k + h].to_vec(), arms[2 * k + 3..2 * k + 3 + h].to_vec());
            for mask in 1u8..16 {
                let mids: Vec<u8> = [b'A', b'C', b'G', b'T'].iter().enumerate().filter(|(i, _)| mask & (1 << i) != 0).map(|(_, b)| *b).collect();
                if mids.len() < 2 {
                    continue;
                }
                // ancestor: 4k of unique sequence, then a copy of L m R, then 4k, ...
                let mut anc: Vec<u8> = long[..4 * k].to_vec();
                let mut locus_starts = Vec::new();
                for (j, m) in mids.iter().enumerate() {
                    locus_starts.push(anc.len());
                    anc.extend_from_slice(&l);
                    anc.push(*m);
                    anc.extend_from_slice(&r);
                    anc.extend_from_slice(&long[(4 + 4 * j) * k..(8 + 4 * j) * k]);
                }
                for (j, ls) in locus_starts.iter().enumerate() {
                    idx += 1;
                    if !ctx.mine(idx) {
                        continue;
                    }
                    // a site inside the left arm of copy j (second letter), and one 2k into the first unique stretch
                    let sites = vec![2 * k, ls + 1];
                    for alleles in [vec![vec![0u8, 1, 1], vec![1, 0, 1]], vec![vec![1u8, 1, 0, 0], vec![0, 1, 0, 1]]] {
                        let n = alleles[0].len();
                        let c = SnpCase { k, ancestor: anc.clone(), sites: sites.clone(), alleles, flip: (0..n).map(|i| i == 1).collect() };
                        rep.evaluations += 1;
                        match check(&c, false, "0.1", ctx.seed, &dir) {
                            Ok(true) => {
                                rep.nontrivial += 1;
                                rep.corner("ambiguity_code_from_repeated_arms");
                                rep.outcome(&(c.planted_columns(), mask, j));
                            }
                            Ok(false) => rep.corner("premise_not_met"),
                            Err(e) if e.starts_with("MACHINERY") => rep.machinery(e),
                            Err(e) => {
                                let jv = case_json(&c, false, "0.1", ctx.seed);
                                rep.violate(format!("repeated arms k={k} mids={} copy={j} n={n}", String::from_utf8_lossy(&mids)), format!("k={k}: arms repeated around middle bases {} (stored as one ambiguity code), site in the arm of copy {j}: {e}", String::from_utf8_lossy(&mids)), jv);
                            }
                        }
                    }
                    if ctx.expired() {
                        rep.capped = true;
                        break;
                    }
                }
            }
        }
        if !rep.capped {
            rep.completed.push("repeated arms".into());
        }
    }
    // well-formedness outside the premise
    if !rep.capped {
        for k in [7usize, 15, 21] {
            let anc = lo::ancestor(10 * k + 1, k, ctx.seed + 18);
            let n = 4;
            let mut variants: Vec<(String, Vec<Vec<Vec<u8>>>)> = Vec::new();
            for d in 1..=(2 * k) {
                // two SNPs at distance d, carried by different samples
                let p = 4 * k;
                let mk = |i: usize| {
                    let mut s = anc.clone();
                    if i % 2 == 0 {
                        s[p] = comp(s[p]);
                    }
                    if i >= 2 {
                        s[p + d] = comp(s[p + d]);
                    }
                    vec![s]
                };
                variants.push((format!("two SNPs at distance {d}"), (0..n).map(mk).collect()));
            }
            // SNP next to a deletion
            for gap in [1usize, 2, k / 2, k] {
                let p = 4 * k;
                let mk = |i: usize| {
                    let mut s = anc.clone();
                    if i % 2 == 1 {
                        s[p] = comp(s[p]);
                    }
                    if i >= 2 {
                        s.drain(p + gap..p + gap + 3);
                    }
                    vec![s]
                };
                variants.push((format!("SNP {gap} before a 3-base deletion"), (0..n).map(mk).collect()));
            }
            // three alleles at adjacent sites
            {
                let p = 4 * k;
                let mk = |i: usize| {
                    let mut s = anc.clone();
                    s[p] = lo::alt_base(anc[p], (i % 3) as u8);
                    s[p + 1] = lo::alt_base(anc[p + 1], ((i + 1) % 3) as u8);
                    vec![s]
                };
                variants.push(("three alleles at adjacent sites".into(), (0..n).map(mk).collect()));
            }
            // one sample carries both alleles (an extra contig with the other allele): its column entry is N
            for n_here in [4usize, 5, 10] {
                let p = 4 * k;
                let mk = |i: usize| {
                    let mut s = anc.clone();
                    if i % 2 == 1 {
                        s[p] = comp(s[p]);
                    }
                    let mut recs = vec![s.clone()];
                    if i == 0 {
                        let mut w = anc[p - k..p + k + 1].to_vec();
                        w[k] = comp(w[k]);
                        recs.push(w);
                    }
                    recs
                };
                variants.push((format!("one of {n_here} samples carries both alleles"), (0..n_here).map(mk).collect()));
            }
            // a sample lacking the region
            {
                let p = 4 * k;
                let mk = |i: usize| {
                    let mut s = anc.clone();
                    if i == 1 {
                        s[p] = comp(s[p]);
                    }
                    if i == 3 {
                        s.truncate(3 * k);
                    }
                    vec![s]
                };
                variants.push(("one sample lacks the region".into(), (0..n).map(mk).collect()));
            }
            for (what, samples) in variants {
                idx += 1;
                if !ctx.mine(idx) {
                    continue;
                }
                for m in ["0", "0.1", "0.3"] {
                    rep.evaluations += 1;
                    rep.corner("well_formedness_family");
                    match lo::run_lo(&dir, k, &samples, None, &["-m", m], 1, Some(ctx.seed)) {
                        Ok(o) => {
                            // `ska lo` may legitimately find nothing (exit 1 with "no entry node")
                            if o.code == 0 {
                                if let Err(e) = well_formed(&o, samples.len(), m.parse().unwrap()) {
                                    rep.violate(format!("wf k={k} {what} m={m}"), format!("k={k} {what} -m {m}: {e}"), json!({"wf": what, "k": k, "m": m}));
                                }
                            }
                        }
                        Err(e) => rep.machinery(e),
                    }
                }
                if ctx.expired() {
                    rep.capped = true;
                    return;
                }
            }
        }
        rep.completed.push("well-formedness family".into());
    }
}
