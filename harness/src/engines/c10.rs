//! C10 — results depend only on the logical content of an .skf, not on its history.
//! Explicit-state BFS; every transition is the real operation on a real file; the state
//! includes the hidden fields (stored counts, k_bits, version).

use serde_json::{json, Value};

use crate::bfs::{self, Sys};
use crate::cli;
use crate::explore::{Ctx, Meta, Report};
use crate::mirror::FileState;
use crate::observe::{self, ObsCfg, RefSeq};
use crate::ops::{self, WeedArgs};
use crate::refmodel::*;
use crate::samples;
use crate::scratch;

pub fn meta() -> Meta {
    Meta {
        id: "C10",
        level: "model_checking",
        rule: "explicit-state breadth-first search; state = canonical .skf content INCLUDING hidden fields (stored per-k-mer counts, k_bits, version); transitions = the real merge / delete / weed / reverse-weed / weed-filter (every filter x ambig-as-missing x threshold x ambig-mask x no-gap-only-sites combination that is not a no-op) / reload functions executed on real files; in every transition the new logical table must equal the documented effect applied to the old one (model), and in every state every observer (nk, align under all filter/flag/threshold settings, distance at every threshold with and without --allow-ambiguous, map aln+vcf against two references) must give the answer the model derives from the logical content alone. States are de-duplicated on the full content, so two files with equal tables but different hidden fields are both expanded. A selection of longest paths is re-executed through the CLI without canonicalisation.".into(),
        assumptions: vec![
            "rows are independent in every operation and every output is compared up to row order, so sorted states have the same futures (guarded by the CLI path replays)".into(),
            "weed --min-freq uses only frequencies t/n whose product with n is exact (floor/ceil ambiguity is outside the alphabet)".into(),
        ],
        exhaustive_when_uncapped: true, // the declared bounded space (all selections / the whole lattice / all histories up to the depth bound / all interleavings and configurations) is enumerated completely unless capped
    }
}

#[derive(Clone, Debug, PartialEq)]
pub enum Act {
    MergeAfter(usize),
    MergeBefore(usize),
    Delete(String),
    Weed(usize, bool),
    Filter(FilterSpec),
    Reload,
}

pub struct World {
    pub k: usize,
    pub starts: Vec<FileState>,
    pub start_paths: Vec<String>,
    pub weed_paths: Vec<String>,
    pub weed_seqs: Vec<Vec<Vec<u8>>>,
    pub refs: Vec<RefSeq>,
    pub full_obs: bool,
}

impl World {
    pub fn new(k: usize, seed: u64, full_obs: bool) -> World {
        let pool = samples::pool(k, seed);
        let groups: Vec<Vec<usize>> = vec![vec![0, 1, 3], vec![2, 5], vec![6]];
        let mut starts = Vec::new();
        let mut start_paths = Vec::new();
        for (gi, g) in groups.iter().enumerate() {
            let names: Vec<String> = g.iter().map(|i| format!("s{i}")).collect();
            let paths: Vec<String> = g.iter().map(|i| scratch::write(&format!("c10_s{i}.fa"), &scratch::fasta(&pool[*i]))).collect();
            let out = scratch::path(&format!("c10_start{gi}.skf"));
            ops::op_build(&names, &paths, k, true, &out).expect("start build");
            starts.push(FileState::read(&out).expect("read start"));
            start_paths.push(out);
        }
        let g = &pool[0][0];
        let weed_seqs: Vec<Vec<Vec<u8>>> = vec![vec![g[k / 2..2 * k].to_vec()], vec![rc_str(&g[2 * k..]), pool[5][1].clone()], vec![pool[2][1].clone()]];
        let weed_paths = weed_seqs.iter().enumerate().map(|(i, s)| scratch::write(&format!("c10_weed{i}.fa"), &scratch::fasta(s))).collect();
        let ref1 = vec![g.clone()];
        let ref2 = vec![g[..k + 3].to_vec(), b"ACG".to_vec(), pool[1][0][k..].to_vec()];
        let mk = |name: &str, seqs: Vec<Vec<u8>>| {
            let named: Vec<(String, Vec<u8>)> = seqs.iter().enumerate().map(|(i, s)| (format!("ctg{i} description"), s.clone())).collect();
            RefSeq { path: scratch::write(name, &scratch::fasta_named(&named)), names: (0..seqs.len()).map(|i| format!("ctg{i}")).collect(), seqs }
        };
        World { k, starts, start_paths, weed_paths, weed_seqs, refs: vec![mk("c10_ref1.fa", ref1), mk("c10_ref2.fa", ref2)], full_obs }
    }

    fn filter_actions(n: usize) -> Vec<FilterSpec> {
        let mut v = Vec::new();
        for f in observe::all_specs(n) {
            // not a no-op by definition
            let noop = f.thr == 0 && f.filt == Filt::NoFilter && !f.mask && !f.nogap;
            if !noop {
                v.push(f);
            }
        }
        v
    }

    /// documented effect on the plain table
    pub fn model_apply(&self, t: &Table, a: &Act) -> Option<Table> {
        Some(match a {
            Act::MergeAfter(i) => t.merge(&self.starts[*i].table),
            Act::MergeBefore(i) => self.starts[*i].table.merge(t),
            Act::Delete(n) => t.delete(&[n.clone()]),
            Act::Weed(i, rev) => t.weed(&self.weed_seqs[*i], *rev),
            Act::Filter(f) => t.filter(f),
            Act::Reload => t.clone(),
        })
    }

    pub fn real_apply(&self, s: &FileState, a: &Act) -> Result<FileState, String> {
        let inp = scratch::path("c10_in.skf");
        let out = scratch::path("c10_out.skf");
        s.write_rot(&inp, s.natural_rot());
        let _ = std::fs::remove_file(&out);
        match a {
            Act::MergeAfter(i) => ops::op_merge(&[inp.clone(), self.start_paths[*i].clone()], &out)?,
            Act::MergeBefore(i) => ops::op_merge(&[self.start_paths[*i].clone(), inp.clone()], &out)?,
            Act::Delete(n) => ops::op_delete(&inp, &[n.clone()], &out)?,
            Act::Weed(i, rev) => ops::op_weed(&inp, &WeedArgs::plain(&self.weed_paths[*i], *rev), &out)?,
            Act::Filter(f) => ops::op_weed(&inp, &WeedArgs::filter_only(s.table.names.len(), f), &out)?,
            Act::Reload => ops::op_reload(&inp, &out)?,
        }
        FileState::read(&out)
    }

    pub fn cli_args(&self, a: &Act, n: usize, file: &str) -> Vec<String> {
        let s = |x: &str| x.to_string();
        match a {
            Act::MergeAfter(i) => vec![s("merge"), s(file), self.start_paths[*i].clone(), s("-o"), s(file)],
            Act::MergeBefore(i) => vec![s("merge"), self.start_paths[*i].clone(), s(file), s("-o"), s(file)],
            Act::Delete(nm) => vec![s("delete"), s("-s"), s(file), nm.clone()],
            Act::Weed(i, rev) => [vec![s("weed"), s(file)], WeedArgs::plain(&self.weed_paths[*i], *rev).cli_args()].concat(),
            Act::Filter(f) => [vec![s("weed"), s(file)], WeedArgs::filter_only(n, f).cli_args()].concat(),
            Act::Reload => vec![],
        }
    }
}

impl Sys for World {
    type S = FileState;
    type A = Act;

    fn actions(&self, s: &FileState) -> Vec<Act> {
        let mut v = Vec::new();
        let n = s.table.names.len();
        for (i, st) in self.starts.iter().enumerate() {
            if n + st.table.names.len() <= 4 && !st.table.names.iter().any(|x| s.table.names.contains(x)) {
                v.push(Act::MergeAfter(i));
                v.push(Act::MergeBefore(i));
            }
        }
        if n >= 2 {
            for nm in &s.table.names {
                v.push(Act::Delete(nm.clone()));
            }
        }
        for i in 0..self.weed_paths.len() {
            v.push(Act::Weed(i, false));
            v.push(Act::Weed(i, true));
        }
        for f in World::filter_actions(n) {
            v.push(Act::Filter(f));
        }
        v.push(Act::Reload);
        v
    }

    fn step(&self, s: &FileState, a: &Act) -> Result<Option<FileState>, String> {
        let want = self.model_apply(&s.table, a).unwrap();
        match self.real_apply(s, a) {
            Ok(n) => {
                if n.table != want {
                    let extra: Vec<&String> = n.table.rows.keys().filter(|k| !want.rows.contains_key(*k)).take(3).collect();
                    let missing: Vec<&String> = want.rows.keys().filter(|k| !n.table.rows.contains_key(*k)).take(3).collect();
                    return Err(format!(
                        "{a:?}: resulting table differs from the documented effect ({} rows vs {} expected; names {:?} vs {:?}; extra {:?} missing {:?})",
                        n.table.rows.len(), want.rows.len(), n.table.names, want.names, extra, missing
                    ));
                }
                Ok(Some(n))
            }
            Err(e) => {
                // an operation may refuse to produce an empty table / empty sample set
                if want.rows.is_empty() {
                    Ok(None)
                } else {
                    Err(format!("{a:?}: operation failed ({e}) although a non-empty result is defined", e = e.chars().take(160).collect::<String>()))
                }
            }
        }
    }

    fn invariant(&self, s: &FileState) -> Result<(), String> {
        // I3: no all-gap row
        if s.table.rows.values().any(|r| r.iter().all(|b| *b == b'-')) {
            return Err("a row with no base at all is stored".into());
        }
        if s.table.rows.is_empty() {
            return Ok(());
        }
        // I2: every observer answers from the logical content only
        let p = scratch::path("c10_obs.skf");
        s.write(&p);
        let refs = if self.full_obs { &self.refs[..] } else { &self.refs[..1] };
        let cfg = ObsCfg { align: true, distance: true, refs, vcf: true };
        let real = observe::real_obs(&p, s.k_bits, &cfg)?;
        let model = observe::model_obs(&s.table, &cfg);
        match observe::first_difference(&real, &model) {
            Some(d) => Err(d),
            None => Ok(()),
        }
    }

    fn describe(&self, s: &FileState) -> Value {
        json!({"names": s.table.names, "rows": s.table.rows.iter().map(|(k, v)| format!("{k}:{}", String::from_utf8_lossy(v))).collect::<Vec<_>>(), "stored_counts": s.counts, "k_bits": s.k_bits})
    }
}

/// Re-execute a path through the CLI on real files, no canonicalisation in between
fn cli_path(w: &World, init: usize, acts: &[Act], end: &FileState) -> Result<(), String> {
    let dir = scratch::path("c10cli");
    let _ = std::fs::remove_dir_all(&dir);
    std::fs::create_dir_all(&dir).unwrap();
    let file = format!("{dir}/x.skf");
    std::fs::copy(&w.start_paths[init], &file).map_err(|e| format!("{e}"))?;
    for a in acts {
        if *a == Act::Reload {
            continue;
        }
        let n = FileState::read(&file)?.table.names.len();
        let args = w.cli_args(a, n, &file);
        let av: Vec<&str> = args.iter().map(|s| s.as_str()).collect();
        let o = cli::run(&av, &dir, None);
        if o.code != 0 {
            return Err(format!("CLI step {a:?} exited with {}", o.code));
        }
    }
    let got = FileState::read(&file)?;
    if got.table != end.table {
        return Err("CLI replay of the path ends in a different table than the search".into());
    }
    Ok(())
}

pub fn run(ctx: &Ctx, rep: &mut Report) {
    let thorough = ctx.tier.thorough();
    // (k, depth): the main search at k=7 (64-bit) and a shallower one at k=33 (128-bit files)
    let worlds: Vec<(usize, usize)> = if thorough { vec![(7, 5), (33, 3)] } else { vec![(7, 3), (33, 2)] };
    for (k, depth) in worlds {
        let w = World::new(k, ctx.seed, thorough);
        let out = bfs::explore(&w, &w.starts.clone(), depth, ctx, rep, &format!("k={k}"), true);
        rep.states = 0; // distinct states are counted by the parent from the union of state hashes
        rep.extra.insert(format!("max_depth_reached_k{k}"), json!(out.max_depth));
        rep.extra.insert(format!("max_depth_bound_k{k}"), json!(depth));
        // sanity ("sometimes") observations so that the run is not vacuous
        for (_, acts, end) in &out.paths {
            let kinds: std::collections::BTreeSet<String> = acts.iter().map(|a| format!("{a:?}").split('(').next().unwrap().to_string()).collect();
            if kinds.len() >= 2 {
                rep.corner("path_with_two_or_more_kinds_of_operation");
            }
            let fresh: Vec<usize> = end.table.rows.values().map(|r| r.iter().filter(|b| **b != b'-').count()).collect();
            if fresh != end.counts {
                rep.corner("state_with_stored_counts_differing_from_fresh_counts");
            }
        }
        // conformance: longest paths through the CLI
        for (init, acts, end) in out.paths.iter().take(if thorough { 12 } else { 4 }) {
            match cli_path(&w, *init, acts, end) {
                Ok(()) => rep.traces_validated += 1,
                Err(e) => rep.violate(format!("cli-path k={k} init={init} {acts:?}"), e, json!({"cli_path": format!("{acts:?}"), "init": init, "k": k})),
            }
            if rep.samples.len() < 3 {
                rep.sample(json!({"k": k, "init": init, "history": acts.iter().map(|a| format!("{a:?}")).collect::<Vec<_>>(), "end_names": end.table.names, "end_rows": end.table.rows.len()}));
            }
        }
        if rep.capped {
            return;
        }
        rep.completed.push(format!("BFS to depth {depth} from 3 start tables at k={k}"));
    }
}
