//! C19 — a damaged .skf is rejected, never read as different data.
//! Fault enumeration: every truncation point and every single-bit flip of valid files,
//! through the real loader exactly as `main` uses it (64-bit attempt, then 128-bit).

use serde_json::{json, Value};
use std::collections::BTreeMap;

use ska::merge_ska_array::MergeSkaArray;

use crate::cli;
use crate::explore::{Ctx, Meta, Report};
use crate::mirror::FileState;
use crate::ops;
use crate::real;
use crate::refmodel::Table;
use crate::samples;
use crate::scratch;

pub fn meta() -> Meta {
    Meta {
        id: "C19",
        level: "fault_enumeration",
        rule: "valid .skf files — small 64-bit (3 samples), small 128-bit, one-sample 64- and 128-bit files (their snappy chunk is stored uncompressed), a file of 250 samples x 1200 rows in about ten snappy chunks (faults placed relative to the chunk structure, at a stride), a file of 180 samples x 200 highly compressible rows (more than 64 kB of CBOR, hence several snappy frames), a file of 1200 samples named by paths of about 65 letters (the name list crosses a chunk boundary; explored like the ten-chunk file), a one-sample file of 270 000 rows (more than 2^18 split k-mers, some fifty chunks; faults at, before and behind every chunk start, behind its checksum, in its middle, and one flipped bit in the type, length, checksum and two in the body of every chunk), thorough: 530 000 rows likewise and a 6 kb genome file with incompressible k-mers, and the files an in-place delete and an in-place weed write — each subjected to EVERY truncation length 0..len-1 and EVERY single-bit flip of every byte; each damaged image goes through MergeSkaArray::<u64>::load then ::<u128>::load as in main: both must fail, or the accepted content (k, strand mode, names, k-mers, bases through the public API) must equal the original. CLI confirmation on the small file: every subcommand on every truncation (quick: stride 3) and on a stride of flips must exit non-zero exactly when the loader rejects, and a rejected delete/weed must leave the file byte-identical; the same damaged images under a name without the .skf suffix, next to intact files named <name>.skf, <name>.skf.skf and <name>.bak, must be rejected as well (a neighbour is never read instead). Non-trivial = a damaged image (all are); distinct outcomes = rejected / accepted-identical.".into(),
        assumptions: vec!["exactly one fault per image (one truncation or one flipped bit)".into(), "flips that change only the stored per-k-mer counts, k_bits or version string are reported separately (not part of the statement's 'samples, k-mers or bases')".into()],
        exhaustive_when_uncapped: true,
    }
}

struct Subject {
    name: String,
    bytes: Vec<u8>,
    table: Table,
    state: FileState,
}

fn load_any(path: &str) -> Option<Result<Table, String>> {
    // as main: try 64-bit, then 128-bit
    let r = real::catch(|| {
        if let Ok(a) = MergeSkaArray::<u64>::load(path) {
            return Some(real::array_table(&a));
        }
        if let Ok(a) = MergeSkaArray::<u128>::load(path) {
            return Some(real::array_table(&a));
        }
        None
    });
    match r {
        Ok(x) => x,
        Err(e) => Some(Err(format!("loader panicked: {e}"))),
    }
}

/// Worker side: read the subject files the parent prepared (same bytes for every shard)
fn subjects(ctx: &Ctx) -> Vec<Subject> {
    let mut v = Vec::new();
    let mut entries: Vec<String> = std::fs::read_dir(&ctx.part).map(|d| d.filter_map(|e| e.ok()).map(|e| e.path().to_str().unwrap().to_string()).collect()).unwrap_or_default();
    entries.sort();
    for path in entries {
        let name = std::path::Path::new(&path).file_stem().unwrap().to_str().unwrap()[3..].replace('_', " ");
        if let (Ok(bytes), Ok(state)) = (std::fs::read(&path), FileState::read(&path)) {
            v.push(Subject { name, bytes, table: state.table.clone(), state });
        }
    }
    v
}

/// Parent side: produce the subject files once, with the real save
pub fn prepare(tier: crate::explore::Tier, seed: u64, dir: &str) {
    struct C {
        tier: crate::explore::Tier,
        seed: u64,
    }
    let ctx = C { tier, seed };
    std::fs::create_dir_all(dir).unwrap();
    let mut count = 0;
    let mut add = |name: &str, path: &str| {
        count += 1;
        let _ = std::fs::copy(path, format!("{dir}/{count:02}_{}.skf", name.replace(' ', "_")));
    };
    for (k, n, label) in [(7usize, 3usize, "small 64-bit"), (33, 2, "small 128-bit"), (31, 1, "one sample 64-bit"), (41, 1, "one sample 128-bit")] {
        let pool = samples::pool(k, ctx.seed);
        let names = samples::names(n);
        let paths: Vec<String> = (0..n).map(|i| scratch::write(&format!("c19_s{i}.fa"), &scratch::fasta(&pool[i]))).collect();
        let out = scratch::path("c19_src.skf");
        if ops::op_build(&names, &paths, k, true, &out).is_ok() {
            add(label, &out);
            if n == 3 {
                // the file an in-place delete writes
                let d = scratch::path("c19_del.skf");
                if ops::op_delete(&out, &["s1".to_string()], &d).is_ok() {
                    add("written by delete", &d);
                }
                // and the file an in-place weed writes
                let wf = scratch::write("c19_weed.fa", &scratch::fasta(&[pool[0][0][..k + 3].to_vec()]));
                let w = scratch::path("c19_weeded.skf");
                if ops::op_weed(&out, &ops::WeedArgs::plain(&wf, false), &w).is_ok() {
                    add("written by weed", &w);
                }
            }
        }
    }
    // several snappy frames, small on disk: 180 samples x 200 rows of compressible bases
    {
        let n = 180;
        let mut rows = BTreeMap::new();
        for i in 0..200u64 {
            let key = String::from_utf8(crate::enumerate::nth_string(b"ACGT", 8, i * 257 + 3)).unwrap();
            let row: Vec<u8> = (0..n).map(|j| if (i + j as u64) % 97 == 0 { b'C' } else { b'A' }).collect();
            rows.insert(key, row);
        }
        let t = Table { k: 9, rc: true, names: (0..n).map(|i| format!("sample{i}")).collect(), rows };
        let p = scratch::path("c19_frames.skf");
        // written by the real save, so that the frame layout is the real one
        let a: MergeSkaArray<u64> = real::forge_array(&t);
        if a.save(&p).is_ok() {
            add("several frames", &p);
        }
    }
    // many snappy frames (about 600 kB of CBOR, ten 64 KiB chunks, several of them wholly inside the matrix of bases):
    // 250 samples x 1200 rows of compressible bases; explored at a stride (see run)
    {
        let n = 250;
        let mut rows = BTreeMap::new();
        for i in 0..1200u64 {
            let key = String::from_utf8(crate::enumerate::nth_string(b"ACGT", 8, i * 53 + 1)).unwrap();
            let row: Vec<u8> = (0..n).map(|j| b"ACGT-"[((i * 7 + j as u64 * 3 + (i * j as u64) % 5) % 5) as usize]).collect();
            rows.insert(key, row);
        }
        let t = Table { k: 9, rc: true, names: (0..n).map(|i| format!("smp{i}")).collect(), rows };
        let p = scratch::path("c19_manyframes.skf");
        let a: MergeSkaArray<u64> = real::forge_array(&t);
        if a.save(&p).is_ok() {
            add("many frames", &p);
        }
    }
    // long NAMES: 1200 samples named by paths of about 65 letters (some 80 kB of names, crossing a 64 KiB chunk boundary of
    // the stream), 24 rows; explored like 'many frames'
    {
        let n = 1200;
        let mut rows = BTreeMap::new();
        for i in 0..24u64 {
            let key = String::from_utf8(crate::enumerate::nth_string(b"ACGT", 8, i * 1021 + 7)).unwrap();
            let row: Vec<u8> = (0..n).map(|j| b"ACGT-"[((i * 3 + j as u64 * 7 + (i * j as u64) % 11) % 5) as usize]).collect();
            rows.insert(key, row);
        }
        let names: Vec<String> = (0..n).map(|i| format!("/data/projects/outbreak_{:03}/isolates/batch{}/ERR{:07}.contigs.fa", (i * 37) % 1000, i % 13, 1_000_003u64 * i as u64 % 9_999_991)).collect();
        let t = Table { k: 9, rc: true, names, rows };
        let p = scratch::path("c19_longnames.skf");
        let a: MergeSkaArray<u64> = real::forge_array(&t);
        if a.save(&p).is_ok() {
            add("long names", &p);
        }
    }
    // many ROWS: one sample, 270 000 split k-mers (more than 2^18; thorough also 530 000, more than 2^19): some 3 MB in
    // about fifty chunks; explored relative to the chunk structure (see run)
    for (label, nrows) in [("many rows", 270_000u64), ("very many rows", 530_000)] {
        if nrows > 300_000 && !ctx.tier.thorough() {
            continue;
        }
        let mut rows = BTreeMap::new();
        for i in 0..nrows {
            let key = String::from_utf8(crate::enumerate::nth_string(b"ACGT", 20, i * 2_000_003 + 1)).unwrap();
            rows.insert(key, vec![b"ACGTRYN"[(i % 7) as usize]]);
        }
        let t = Table { k: 21, rc: true, names: vec!["genome".into()], rows };
        let p = scratch::path("c19_manyrows.skf");
        let a: MergeSkaArray<u64> = real::forge_array(&t);
        if a.save(&p).is_ok() {
            add(label, &p);
            if nrows < 300_000 {
                // the same table as `ska weed --filter-ambig-as-missing --ambig-mask` (no weed file) writes it: another
                // save path, other stored counts
                let w = scratch::path("c19_manyrows_weeded.skf");
                let args = ops::WeedArgs { weed_file: None, reverse: false, min_freq: 0.0, ambig_missing: true, filt: crate::refmodel::Filt::NoFilter, mask: true, nogap: false };
                if ops::op_weed(&p, &args, &w).is_ok() {
                    add("weeded many rows", &w);
                }
            }
        }
    }
    if ctx.tier.thorough() {
        let k = 31;
        let g = crate::enumerate::repeat_free(6000, k, 0, ctx.seed + 19);
        let p = scratch::write("c19_big.fa", &scratch::fasta(&[g]));
        let out = scratch::path("c19_big.skf");
        if ops::op_build(&["big".to_string()], &[p], k, true, &out).is_ok() {
            add("6 kb genome", &out);
        }
    }
}

fn check_image(rep: &mut Report, s: &Subject, image: &[u8], fault: &str, path: &str) -> bool {
    rep.evaluations += 1;
    rep.nontrivial += 1;
    std::fs::write(path, image).unwrap();
    match load_any(path) {
        None => {
            rep.corner("rejected");
            rep.outcomes.insert(1);
            false
        }
        Some(Ok(t)) if t == s.table => {
            // accepted and identical in the visible content; classify hidden differences
            rep.outcomes.insert(2);
            match FileState::read(path) {
                Ok(st) if st == s.state => {
                    rep.corner("accepted_identical");
                    rep.corner(&format!("accepted_identical[{}]", s.name));
                }
                _ => {
                    // what the public API shows is the same, but the stored state behind it (per-row counts, version,
                    // width) is not: the damaged file is read as different data all the same
                    rep.corner("accepted_identical_content_but_hidden_field_differs");
                    rep.violate(
                        format!("{} {fault} hidden", s.name),
                        format!("{} with {fault}: accepted; k, names, k-mers and bases read the same but the stored per-row counts / hidden fields differ from the undamaged file", s.name),
                        json!({"subject": s.name, "fault": fault, "hidden": true}),
                    );
                }
            }
            true
        }
        Some(other) => {
            let what = match other {
                Ok(t) => format!(
                    "accepted as DIFFERENT data: k={} rc={} {} samples {} k-mers (original k={} rc={} {} samples {} k-mers){}",
                    t.k,
                    t.rc,
                    t.names.len(),
                    t.rows.len(),
                    s.table.k,
                    s.table.rc,
                    s.table.names.len(),
                    s.table.rows.len(),
                    if t.names != s.table.names { ", names differ" } else if t.rows.keys().ne(s.table.rows.keys()) { ", k-mers differ" } else { ", bases differ" }
                ),
                Err(e) => format!("accepted but unusable: {e}"),
            };
            rep.violate(format!("file='{}' fault={fault}", s.name), format!("{} with {fault}: {what}", s.name), json!({"file": s.name, "fault": fault}));
            true
        }
    }
}

pub fn replay(_case: &Value) -> Result<Option<String>, String> {
    Err("C19 faults are positions in generated files; rerun ./check C19 (deterministic)".into())
}

pub fn run(ctx: &Ctx, rep: &mut Report) {
    let subs = subjects(ctx);
    if subs.len() < 5 {
        rep.machinery(format!("C19: only {} subject files could be produced", subs.len()));
    }
    let path = scratch::path("c19_img.skf");
    let mut idx = 0u64;
    let mut accepted_flips_small: Vec<(usize, u8)> = Vec::new();
    for s in &subs {
        // the reference is what the real loader reads from the UNDAMAGED file (the independent reader of mirror.rs is
        // used to classify hidden fields only; should the two disagree, that is C09's business, noted as a corner)
        std::fs::write(&path, &s.bytes).unwrap();
        let reference = match load_any(&path) {
            Some(Ok(t)) => t,
            _ => {
                rep.machinery(format!("C19: undamaged subject '{}' does not load", s.name));
                continue;
            }
        };
        if reference != s.table {
            rep.corner("loader_and_independent_reader_disagree_on_an_undamaged_file");
        }
        let s = &Subject { name: s.name.clone(), bytes: s.bytes.clone(), table: reference, state: s.state.clone() };
        let len = s.bytes.len();
        rep.extra.insert(format!("max_bytes[{}]", s.name), json!(len));
        if s.name == "many frames" || s.name == "long names" || s.name.ends_with("many rows") {
            // too large for every position: the chunk structure of the snappy frame format is read (1 type byte, 3
            // length bytes, then the chunk) and the faults are placed relative to it
            let rows_subject = s.name.ends_with("many rows");
            let mut starts: Vec<usize> = Vec::new();
            let mut p = 0usize;
            while p + 4 <= len {
                starts.push(p);
                let l = s.bytes[p + 1] as usize | (s.bytes[p + 2] as usize) << 8 | (s.bytes[p + 3] as usize) << 16;
                p += 4 + l;
            }
            rep.extra.insert(format!("max_chunks[{}]", s.name), json!(starts.len()));
            // 'many frames': every 61st byte and ten positions either side of every chunk start; 'many rows' (each image
            // costs a 3 MB load): the chunk start, the byte before and after it, the end of the checksum, and the middle
            let mut cuts: std::collections::BTreeSet<usize> = if rows_subject { std::collections::BTreeSet::new() } else { (0..len).step_by(61).collect() };
            for (ci, st) in starts.iter().enumerate() {
                if rows_subject {
                    let next = starts.get(ci + 1).copied().unwrap_or(len);
                    for c in [st.saturating_sub(1), *st, st + 1, st + 8, (st + next) / 2] {
                        if c < len {
                            cuts.insert(c);
                        }
                    }
                    continue;
                }
                for d in 0..=9usize {
                    if st + d < len {
                        cuts.insert(st + d);
                    }
                    if *st >= d {
                        cuts.insert(st - d);
                    }
                }
            }
            for l in cuts {
                idx += 1;
                if !ctx.mine(idx) {
                    continue;
                }
                check_image(rep, s, &s.bytes[..l], &format!("truncation to {l} of {len} bytes"), &path);
            }
            let mut img = s.bytes.clone();
            let mut flips: Vec<(usize, u8)> = Vec::new();
            for (ci, st) in starts.iter().enumerate() {
                if rows_subject {
                    // one bit of the chunk type, of the length, of the checksum, and two inside the chunk
                    let next = starts.get(ci + 1).copied().unwrap_or(len);
                    // (bit 7 of the type byte turns a data chunk into a reserved skippable one: the reader drops 64 KiB)
                    for (pos, bit) in [(*st, 0u8), (*st, 7u8), (st + 1, (ci % 8) as u8), (st + 5, ((ci + 3) % 8) as u8), (st + 8 + (next - st - 8) / 3, (ci % 8) as u8), (next - 1, ((ci + 5) % 8) as u8)] {
                        if pos < len {
                            flips.push((pos, bit));
                        }
                    }
                    continue;
                }
                // all bits of the chunk header and of the checksum behind it
                for d in 0..8usize {
                    if st + d < len {
                        for bit in 0..8u8 {
                            flips.push((st + d, bit));
                        }
                    }
                }
            }
            if !rows_subject {
                for pos in (0..len).step_by(23) {
                    flips.push((pos, (pos % 8) as u8));
                }
            }
            for (pos, bit) in flips {
                idx += 1;
                if !ctx.mine(idx) {
                    continue;
                }
                img[pos] ^= 1 << bit;
                check_image(rep, s, &img, &format!("bit {bit} of byte {pos} flipped"), &path);
                img[pos] ^= 1 << bit;
                if (rows_subject || idx % 256 == 0) && ctx.expired() {
                    rep.capped = true;
                    return;
                }
            }
            if rows_subject {
                rep.completed.push(format!("'{}': truncations at, before and behind every chunk start, behind its checksum and in its middle; one flipped bit in the type, length, checksum and two in the body of every chunk", s.name));
            } else {
                rep.completed.push(format!("'{}': truncations around every chunk boundary and at every 61st byte; flips of every header and checksum bit and of one bit in every 23rd byte", s.name));
            }
            continue;
        }
        // truncations
        for l in 0..len {
            idx += 1;
            if !ctx.mine(idx) {
                continue;
            }
            check_image(rep, s, &s.bytes[..l], &format!("truncation to {l} of {len} bytes"), &path);
        }
        if ctx.expired() {
            rep.capped = true;
            return;
        }
        // bit flips
        let mut img = s.bytes.clone();
        for pos in 0..len {
            for bit in 0..8u8 {
                idx += 1;
                if !ctx.mine(idx) {
                    continue;
                }
                img[pos] ^= 1 << bit;
                let acc = check_image(rep, s, &img, &format!("bit {bit} of byte {pos} flipped"), &path);
                img[pos] ^= 1 << bit;
                if acc && s.name == "small 64-bit" {
                    accepted_flips_small.push((pos, bit));
                }
                if acc {
                    // where do accepted-and-identical flips sit? (reported as min/max byte per file)
                    let kmin = format!("min_accepted_flip_byte[{}]", s.name);
                    let kmax = format!("max_accepted_flip_byte[{}]", s.name);
                    let cur_min = rep.extra.get(&kmin).and_then(|v| v.as_u64()).unwrap_or(u64::MAX);
                    let cur_max = rep.extra.get(&kmax).and_then(|v| v.as_u64()).unwrap_or(0);
                    rep.extra.insert(kmin, json!(cur_min.min(pos as u64)));
                    rep.extra.insert(kmax, json!(cur_max.max(pos as u64)));
                }
            }
            if pos % 64 == 0 && ctx.expired() {
                rep.capped = true;
                return;
            }
        }
        rep.completed.push(format!("'{}': all truncations and all single-bit flips", s.name));
    }
    // CLI confirmation on the small 64-bit file
    if let Some(s) = subs.iter().find(|s| s.name == "small 64-bit") {
        let dir = scratch::path("c19cli");
        let _ = std::fs::create_dir_all(&dir);
        let pool = samples::pool(7, ctx.seed);
        std::fs::write(format!("{dir}/ref.fa"), scratch::fasta(&pool[0])).unwrap();
        std::fs::write(format!("{dir}/w.fa"), scratch::fasta(&[pool[0][0][..10].to_vec()])).unwrap();
        let stride = if ctx.tier.thorough() { 1 } else { 3 };
        let mut images: Vec<(String, Vec<u8>)> = Vec::new();
        for l in (0..s.bytes.len()).step_by(stride) {
            images.push((format!("truncation to {l}"), s.bytes[..l].to_vec()));
        }
        for pos in (0..s.bytes.len()).step_by(if ctx.tier.thorough() { 5 } else { 23 }) {
            let mut b = s.bytes.clone();
            b[pos] ^= 1 << (pos % 8);
            images.push((format!("bit {} of byte {pos} flipped", pos % 8), b));
        }
        let cmds: Vec<(&str, Vec<&str>)> = vec![
            ("nk", vec!["nk", "--full-info", "x.skf"]),
            ("align", vec!["align", "x.skf"]),
            ("map", vec!["map", "ref.fa", "x.skf"]),
            ("distance", vec!["distance", "x.skf"]),
            ("merge", vec!["merge", "x.skf", "good.skf", "-o", "m"]),
            ("merge-second", vec!["merge", "good.skf", "x.skf", "-o", "m"]),
            ("merge-third", vec!["merge", "good.skf", "good.skf", "x.skf", "-o", "m"]),
            ("merge-alone", vec!["merge", "x.skf", "-o", "m"]),
            ("merge-twice", vec!["merge", "x.skf", "x.skf", "-o", "m"]),
            ("delete", vec!["delete", "-s", "x.skf", "s1"]),
            ("weed", vec!["weed", "x.skf", "w.fa", "--min-freq", "0"]),
            ("weed-nothing-to-do", vec!["weed", "x.skf", "--min-freq", "0"]),
            ("weed-nothing-to-do-o", vec!["weed", "x.skf", "--min-freq", "0", "-o", "copy.skf"]),
            ("weed-filter-only", vec!["weed", "x.skf"]),
            ("delete-o", vec!["delete", "-s", "x.skf", "-o", "del_out", "s1"]),
            ("lo", vec!["lo", "x.skf", "lo_out"]),
        ];
        // a good file with other sample names for the merge commands
        let other: Vec<String> = vec!["o0".into()];
        let op = scratch::write("c19_o0.fa", &scratch::fasta(&pool[2]));
        let _ = ops::op_build(&other, &[op], 7, true, &format!("{dir}/good.skf"));
        for (fault, img) in images {
            idx += 1;
            if !ctx.mine(idx) {
                continue;
            }
            std::fs::write(&path, &img).unwrap();
            let accepted = load_any(&path).is_some();
            for (name, args) in &cmds {
                rep.evaluations += 1;
                rep.corner("cli_on_damaged_file");
                std::fs::write(format!("{dir}/x.skf"), &img).unwrap();
                let o = cli::run(args, &dir, None);
                let after = std::fs::read(format!("{dir}/x.skf")).unwrap_or_default();
                if !accepted {
                    if o.code == 0 {
                        rep.violate(format!("cli {name} on {fault}"), format!("ska {name} exits 0 on a file the loader rejects ({fault})"), json!({"cli": name, "fault": fault}));
                    }
                    for outf in ["copy.skf", "del_out.skf", "m.skf"] {
                        let pth = format!("{dir}/{outf}");
                        if std::path::Path::new(&pth).exists() {
                            if FileState::read(&pth).is_ok() && o.code == 0 {
                                rep.violate(format!("cli {name} writes output from rejected file {fault}"), format!("ska {name} wrote {outf} from a file the loader rejects ({fault})"), json!({"cli": name, "fault": fault}));
                            }
                            let _ = std::fs::remove_file(&pth);
                        }
                    }
                    if after != img {
                        rep.violate(format!("cli {name} touches rejected file {fault}"), format!("ska {name} modified a file it rejected ({fault})"), json!({"cli": name, "fault": fault}));
                    }
                }
            }
            // the damaged file under a name without the suffix, next to intact files with similar names
            // (`y` beside `y.skf`, as after `weed run.skf -o run`): the neighbour must never be read instead
            if !accepted {
                std::fs::write(format!("{dir}/y"), &img).unwrap();
                for sib in ["y.skf", "y.skf.skf", "y.bak"] {
                    let _ = std::fs::copy(format!("{dir}/good.skf"), format!("{dir}/{sib}"));
                }
                let sib_cmds: Vec<(&str, Vec<&str>)> = vec![("nk", vec!["nk", "y"]), ("align", vec!["align", "y"]), ("merge-second", vec!["merge", "good.skf", "y", "-o", "m"]), ("weed", vec!["weed", "y", "w.fa", "--min-freq", "0", "-o", "copy.skf"]), ("distance", vec!["distance", "y"])];
                for (name, args) in &sib_cmds {
                    rep.evaluations += 1;
                    rep.corner("cli_on_damaged_file_with_intact_neighbours");
                    let o = cli::run(args, &dir, None);
                    if o.code == 0 {
                        rep.violate(format!("cli {name} on suffix-less {fault}"), format!("ska {name} exits 0 on the damaged file `y` ({fault}) that has intact neighbours y.skf / y.skf.skf / y.bak"), json!({"cli": name, "fault": fault, "neighbours": true}));
                    }
                    for outf in ["copy.skf", "m.skf"] {
                        let _ = std::fs::remove_file(format!("{dir}/{outf}"));
                    }
                }
            }
            if ctx.expired() {
                rep.capped = true;
                return;
            }
        }
        rep.completed.push("CLI on damaged copies of the small 64-bit file".into());
    }
    rep.extra.insert("accepted_flip_positions_small_file".into(), json!(accepted_flips_small.len()));
    rep.sample(json!({"file": "small 64-bit", "fault": "truncation to 17 bytes", "expected": "rejected by both width attempts"}));
    rep.sample(json!({"file": "one sample 64-bit", "fault": "bit 3 of byte 40 flipped", "expected": "rejected or identical content"}));
}
