//! C20 — cov tabulates exact k-mer multiplicities and labels the cutoff it defines.

use serde_json::{json, Value};
use std::collections::BTreeMap;

use ska::coverage::verif_hooks as hooks;
use ska::coverage::CoverageHistogram;

use crate::cli;
use crate::enumerate::repeat_free;
use crate::explore::{Ctx, Meta, Report};
use crate::real::{self, Int};
use crate::refmodel::*;
use crate::scratch;

pub fn meta() -> Meta {
    Meta {
        id: "C20",
        level: "exploration",
        rule: "(1) counting and table: read pairs with an exactly designed multiplicity histogram (for each designed (count c, n k-mers) a unique segment of n+k-1 letters is read c times, copies alternating between the two files and the two orientations) — every design from a family that puts 49/50/51 k-mers on the last bucket, leaves empty buckets inside, reaches counts 1..12, long tables (a segment seen 250 / 600 / exactly 1000 times, and segments seen 1001 and 1200 times, which the table must not list), and one made of reads of exactly k letters, of k+1 letters and of reads too short to hold a k-mer — histograms that are themselves a two-Poisson mixture of 30 000 k-mers (w0 in {0.8,0.9,0.93,0.95,0.97} x c in {3.5,4.3,4.85,5.5,6.5,8}: high error weight, low coverage, so that fits occur whose components cross above the fitted coverage), plus tilings of a genome with substitution errors and N runs; FASTQ files with an odd number of reads are written with CRLF line ends; every third designed read set is written as gzip in two members per file (lanes compressed one by one and concatenated); k in {7,31,33} (thorough: + 15, 21, 63) x both strand modes; the real CoverageHistogram::new + fit_histogram (hook: truncated counts, per-k-mer multiplicities) and the `ska cov` CLI table are compared with the model's multiplicity of every distinct split k-mer. (2) cutoff rule: hooked find_cutoff on the grid w0 in {0.01,0.05..0.95,0.99} x c in {1,1.5,2,3,5,10,20,40,80} x every table length 1..100 (thorough 1..400) against an independent closed form; end to end the printed cutoff equals that function of the fitted parameters and 'Error' labels exactly the counts below it. (3) likelihood/gradient identity on the basis: every unit histogram e_i (i=1..120 plus 150,172,200,244,300,400,600,999; thorough 1..400 plus those) x 19 w0 (thorough 99) plus 20 weights within 5e-3 of 0 or 1 (1e-8 .. 5e-3 and their mirrors) x 12 c (thorough 71): hooked log_likelihood equals the two-Poisson mixture computed independently, hooked grad_ll equals its closed-form derivative (1e-9 relative) and the central difference of the real log_likelihood (1e-5); linearity is checked on composite histograms. Non-trivial = every grid point / designed read set.".into(),
        assumptions: vec![
            "likelihood and gradient are linear in the histogram, so the unit histograms form a basis (checked on composites)".into(),
            "grid points within 1e-9 of a tie of the two components accept either neighbouring cutoff".into(),
            "when the optimiser does not converge `ska cov` prints no table; the counts are then read through the hook".into(),
        ],
        exhaustive_when_uncapped: true,
    }
}

fn ln_fact(i: usize) -> f64 {
    (1..=i).map(|x| (x as f64).ln()).sum()
}
fn ln_pois(i: usize, lambda: f64) -> f64 {
    i as f64 * lambda.ln() - ln_fact(i) - lambda
}
/// independent mixture log-density at count i
fn ln_mix(w0: f64, c: f64, i: usize) -> f64 {
    let a = w0.ln() + ln_pois(i, 1.0);
    let b = (1.0 - w0).ln() + ln_pois(i, c);
    let m = a.max(b);
    m + ((a - m).exp() + (b - m).exp()).ln()
}
fn model_grad(w0: f64, c: f64, i: usize) -> (f64, f64) {
    let la = ln_pois(i, 1.0);
    let lb = ln_pois(i, c);
    let lm = ln_mix(w0, c, i);
    let dw = (la - lm).exp() - (lb - lm).exp();
    let dc = ((1.0 - w0).ln() + lb - lm).exp() * (i as f64 / c - 1.0);
    (dw, dc)
}
/// smallest i>=1 with w0*Pois(i;1) < (1-w0)*Pois(i;c), capped at len; second value = a tie is within tolerance at the boundary
fn model_cutoff(w0: f64, c: f64, len: usize) -> (usize, bool) {
    let mut tie = false;
    let mut i = 1;
    while i < len {
        let d = (w0.ln() + ln_pois(i, 1.0)) - ((1.0 - w0).ln() + ln_pois(i, c));
        if d.abs() < 1e-9 {
            tie = true;
        }
        if d < 0.0 {
            break;
        }
        i += 1;
    }
    (i, tie)
}

fn rel_close(a: f64, b: f64, tol: f64) -> bool {
    (a - b).abs() <= tol * (1.0 + a.abs().max(b.abs()))
}

type Reads = Vec<Vec<u8>>;

fn fastq(reads: &Reads) -> Vec<u8> {
    // read sets with an odd number of reads are written with CRLF line ends, the others with LF
    let eol: &[u8] = if reads.len() % 2 == 1 { b"\r\n" } else { b"\n" };
    let mut out = Vec::new();
    for (i, s) in reads.iter().enumerate() {
        out.extend_from_slice(format!("@r{i}").as_bytes());
        out.extend_from_slice(eol);
        out.extend_from_slice(s);
        out.extend_from_slice(eol);
        out.push(b'+');
        out.extend_from_slice(eol);
        out.extend(std::iter::repeat(b'I').take(s.len()));
        out.extend_from_slice(eol);
    }
    out
}

/// Reads realising a designed histogram: (count, number of distinct k-mers)
/// fits whose components cross above the fitted coverage (floor(c) < cutoff < table length), for the evidence
static CROSSING_ABOVE_C: std::sync::atomic::AtomicU64 = std::sync::atomic::AtomicU64::new(0);

fn designed_reads(design: &[(usize, usize)], k: usize, seed: u64) -> [Reads; 2] {
    let total: usize = design.iter().map(|(_, n)| n + k).sum::<usize>() + k;
    let g = repeat_free(total, k, 0, seed);
    let mut f: [Reads; 2] = [Vec::new(), Vec::new()];
    let mut off = 0;
    let mut t = 0usize;
    for (c, n) in design {
        if *n == 0 {
            continue;
        }
        let seg = &g[off..off + n + k - 1];
        off += n + k; // one letter gap: no window spans two segments
        for _ in 0..*c {
            let r = if t % 3 == 1 { rc_str(seg) } else { seg.to_vec() };
            f[t % 2].push(r);
            t += 1;
        }
    }
    for file in f.iter_mut() {
        if file.is_empty() {
            file.push(b"A".to_vec());
        }
    }
    f
}

/// expected (truncated) table from the model's multiplicities
fn model_table(files: &[Reads; 2], k: usize, rc: bool) -> (BTreeMap<String, usize>, Vec<u32>) {
    let mult = key_multiplicities(&[files[0].clone(), files[1].clone()], k, rc);
    let mut hist = vec![0u32; 1000];
    for m in mult.values() {
        if *m >= 1 && *m <= 1000 {
            hist[m - 1] += 1;
        }
    }
    let last = hist.iter().rposition(|x| *x >= 50).map(|p| p + 1).unwrap_or(0);
    hist.truncate(last);
    (mult, hist)
}

struct CovOut {
    fit_ok: bool,
    w0: f64,
    c: f64,
    cutoff: usize,
    counts: Vec<u32>,
    mult: BTreeMap<String, usize>,
}

fn real_cov<I: Int>(p1: &str, p2: &str, k: usize, rc: bool) -> Result<CovOut, String> {
    // in a forked child with a time limit: a fit that never returns must not hang the check
    let (p1, p2) = (p1.to_string(), p2.to_string());
    let r = crate::forkrun::in_child(
        move || {
            let mut cov = CoverageHistogram::<I>::new(&p1, &p2, k, rc, false);
            let mult: BTreeMap<String, usize> = hooks::kmer_counts(&cov).into_iter().map(|(km, n)| (real::key_of(km, k), n as usize)).collect();
            let fit = cov.fit_histogram();
            let (w0, c, cutoff, counts, _) = hooks::fitted_state(&cov);
            serde_json::to_vec(&json!({"fit_ok": fit.is_ok(), "w0": w0, "c": c, "cutoff": cutoff, "counts": counts, "mult": mult})).unwrap()
        },
        60_000,
    );
    match r {
        crate::forkrun::ChildResult::Ok(b) => {
            let v: Value = serde_json::from_slice(&b).map_err(|e| format!("{e}"))?;
            Ok(CovOut {
                fit_ok: v["fit_ok"].as_bool().unwrap_or(false),
                w0: v["w0"].as_f64().unwrap_or(f64::NAN),
                c: v["c"].as_f64().unwrap_or(f64::NAN),
                cutoff: v["cutoff"].as_u64().unwrap_or(0) as usize,
                counts: v["counts"].as_array().map(|a| a.iter().map(|x| x.as_u64().unwrap_or(0) as u32).collect()).unwrap_or_default(),
                mult: v["mult"].as_object().map(|m| m.iter().map(|(k, n)| (k.clone(), n.as_u64().unwrap_or(0) as usize)).collect()).unwrap_or_default(),
            })
        }
        crate::forkrun::ChildResult::Timeout => Err("counting + fit did not return within 60 s (hang)".into()),
        crate::forkrun::ChildResult::Panic(m) => Err(format!("panicked: {m}")),
        crate::forkrun::ChildResult::Exit(c) => Err(format!("exited with status {c}")),
    }
}

/// every third read set is written as gzip in two members per file (lanes compressed one by one and concatenated)
static TWO_MEMBER_GZIP: std::sync::atomic::AtomicBool = std::sync::atomic::AtomicBool::new(false);

fn check_readset(files: &[Reads; 2], k: usize, rc: bool, with_cli: bool) -> Result<bool, String> {
    let two = TWO_MEMBER_GZIP.load(std::sync::atomic::Ordering::Relaxed);
    let wr = |name: &str, text: Vec<u8>| if two { scratch::write(name, &scratch::gz_two_members(&text, 4)) } else { scratch::write(name, &text) };
    let p1 = wr("c20_1.fastq", fastq(&files[0]));
    let p2 = wr("c20_2.fastq", fastq(&files[1]));
    let (mult, table) = model_table(files, k, rc);
    let out = if k <= 31 { real_cov::<u64>(&p1, &p2, k, rc) } else { real_cov::<u128>(&p1, &p2, k, rc) }.map_err(|e| format!("cov panicked: {e}"))?;
    if out.mult != mult {
        let d = mult.iter().find(|(a, m)| out.mult.get(*a) != Some(*m));
        return Err(format!("multiplicities differ ({} distinct k-mers counted, model {}); e.g. {:?} counted {:?}", out.mult.len(), mult.len(), d, d.and_then(|(a, _)| out.mult.get(a))));
    }
    if out.counts != table {
        return Err(format!("table after truncation has {} rows {:?}…, expected {} rows {:?}… (rows up to the last count shared by >= 50 k-mers)", out.counts.len(), &out.counts[..out.counts.len().min(8)], table.len(), &table[..table.len().min(8)]));
    }
    if std::env::var("VERIF_DUMP").is_ok() {
        eprintln!("C20 fit k={k} rc={rc}: ok={} w0={:.4} c={:.3} cutoff={} rows={}", out.fit_ok, out.w0, out.c, out.cutoff, out.counts.len());
    }
    if out.fit_ok {
        let (want, tie) = model_cutoff(out.w0, out.c, out.counts.len());
        if want as f64 > out.c.floor() && want < out.counts.len() {
            CROSSING_ABOVE_C.fetch_add(1, std::sync::atomic::Ordering::Relaxed);
        }
        if out.cutoff != want && !(tie && out.cutoff.abs_diff(want) <= 1) {
            return Err(format!("cutoff {} but the fitted parameters w0={} c={} define {want}", out.cutoff, out.w0, out.c));
        }
    }
    if with_cli {
        let dir = scratch::path("c20cli");
        let _ = std::fs::create_dir_all(&dir);
        std::fs::copy(&p1, format!("{dir}/a.fastq")).unwrap();
        std::fs::copy(&p2, format!("{dir}/b.fastq")).unwrap();
        let ks = k.to_string();
        let mut args = vec!["cov", "a.fastq", "b.fastq", "-k", &ks];
        if !rc {
            args.push("--single-strand");
        }
        let o = cli::run(&args, &dir, None);
        if o.code != 0 {
            if out.fit_ok {
                return Err(format!("ska cov exits {} although the fit converges in-process", o.code));
            }
            return Ok(true);
        }
        let text = String::from_utf8_lossy(&o.stdout);
        let mut rows: Vec<(usize, u32, f64, String)> = Vec::new();
        for l in text.lines().skip(1) {
            let f: Vec<&str> = l.split('\t').collect();
            if f.len() == 4 {
                rows.push((f[0].parse().map_err(|_| "count")?, f[1].parse().map_err(|_| "kmers")?, f[2].parse().map_err(|_| "density")?, f[3].to_string()));
            }
        }
        let err = String::from_utf8_lossy(&o.stderr);
        let cutoff: usize = err.lines().find_map(|l| l.strip_prefix("Estimated cutoff\t")).and_then(|x| x.trim().parse().ok()).ok_or("no 'Estimated cutoff' line")?;
        if rows.len() != table.len() {
            return Err(format!("ska cov prints {} rows, expected {}", rows.len(), table.len()));
        }
        for (i, r) in rows.iter().enumerate() {
            if r.0 != i + 1 || r.1 != table[i] {
                return Err(format!("row {}: count {} with {} k-mers, expected count {} with {}", i + 1, r.0, r.1, i + 1, table[i]));
            }
            let want_label = if i + 1 < cutoff { "Error" } else { "Coverage" };
            if r.3 != want_label {
                return Err(format!("row {} labelled {} with cutoff {cutoff}", i + 1, r.3));
            }
            // density column is the mixture at the fitted parameters (the CLI run fits the same data)
            let dens = ln_mix(out.w0, out.c, i + 1).exp();
            if !rel_close(r.2, dens, 1e-4) && out.fit_ok && cutoff == out.cutoff {
                return Err(format!("row {}: mixture density {} but the fitted parameters give {dens}", i + 1, r.2));
            }
        }
        if out.fit_ok {
            let (want, tie) = model_cutoff(out.w0, out.c, table.len());
            if cutoff != want && !(tie && cutoff.abs_diff(want) <= 1) {
                return Err(format!("printed cutoff {cutoff}, fitted parameters define {want}"));
            }
        }
    }
    Ok(true)
}

pub fn replay(_v: &Value) -> Result<Option<String>, String> {
    Err("C20 cases are grid points / generated read sets; rerun ./check C20 (deterministic)".into())
}

pub fn run(ctx: &Ctx, rep: &mut Report) {
    let thorough = ctx.tier.thorough();
    let mut idx = 0u64;
    // ---------- (3) likelihood and gradient on the basis
    let mut w0s: Vec<f64> = if thorough { (1..=99).map(|i| i as f64 * 0.01).collect() } else { (1..=19).map(|i| i as f64 * 0.05).collect() };
    // error weights close to the ends of (0,1): clean reads of a large genome fit w0 ~ 1e-4, very noisy ones w0 -> 1
    for e in [1e-8, 1e-6, 1e-5, 1e-4, 2e-4, 5e-4, 9.99e-4, 1e-3, 2e-3, 5e-3] {
        w0s.push(e);
        w0s.push(1.0 - e);
    }
    let mut cs: Vec<f64> = vec![1.0, 1.25, 1.5, 2.0, 3.0, 5.0, 8.0, 13.0, 20.0, 40.0, 80.0, 150.0];
    if thorough {
        cs.extend((2..=60).map(|i| i as f64 * 1.7));
    }
    let mut is: Vec<usize> = (1..=(if thorough { 400usize } else { 120 })).collect();
    // long tables (over-represented k-mers): sparse set of large counts, all parameter points
    is.extend([150usize, 172, 200, 244, 300, 400, 600, 999]);
    is.dedup();
    for i in is {
        idx += 1;
        if !ctx.mine(idx) {
            continue;
        }
        let mut unit = vec![0.0f64; i];
        unit[i - 1] = 1.0;
        for w0 in &w0s {
            for c in &cs {
                rep.evaluations += 1;
                rep.nontrivial += 1;
                let pars = [*w0, *c];
                let ll = hooks::log_likelihood(&pars, &unit);
                let want_ll = ln_mix(*w0, *c, i);
                let g = hooks::grad_ll(&pars, &unit);
                let (dw, dc) = model_grad(*w0, *c, i);
                let mut bad = None;
                if !rel_close(ll, want_ll, 1e-9) {
                    bad = Some(format!("log-likelihood {ll} but the two-Poisson mixture gives {want_ll}"));
                } else if !rel_close(g[0], dw, 1e-9) || !rel_close(g[1], dc, 1e-9) {
                    bad = Some(format!("gradient ({}, {}) but the derivative of the mixture is ({dw}, {dc})", g[0], g[1]));
                } else if (0.005..=0.995).contains(w0) {
                    // central differences of the real log_likelihood (not at the extreme weights: the differences
                    // cancel there; the closed form above is the oracle)
                    let hw = 1e-6f64;
                    let hc = 1e-6 * c.max(1.0);
                    let nw = (hooks::log_likelihood(&[w0 + hw, *c], &unit) - hooks::log_likelihood(&[w0 - hw, *c], &unit)) / (2.0 * hw);
                    if !rel_close(g[0], nw, 1e-5) {
                        bad = Some(format!("d/dw0 {} vs central difference {nw}", g[0]));
                    }
                    if *c - hc >= 1.0 {
                        let nc = (hooks::log_likelihood(&[*w0, c + hc], &unit) - hooks::log_likelihood(&[*w0, c - hc], &unit)) / (2.0 * hc);
                        if !rel_close(g[1], nc, 1e-5) {
                            bad = Some(format!("d/dc {} vs central difference {nc}", g[1]));
                        }
                    }
                }
                if let Some(b) = bad {
                    rep.violate(format!("gradient i={i} w0={w0} c={c}"), format!("unit histogram at count {i}, w0={w0}, c={c}: {b}"), json!({"part": "gradient", "i": i, "w0": w0, "c": c}));
                }
            }
        }
        rep.outcome(&("grad", i));
    }
    // linearity on composites (and the repository's own example histogram)
    idx += 1;
    if ctx.mine(idx) {
        let example: Vec<f64> = vec![44633459.0, 950672.0, 104410.0, 44137.0, 24170.0, 21232.0, 21699.0, 24145.0, 30696.0, 39210.0, 49878.0, 63683.0, 77690.0, 95147.0, 112416.0, 130307.0, 146531.0, 160932.0, 175130.0, 185113.0];
        let comp: Vec<f64> = (0..60).map(|i| ((i * 37 + 11) % 101) as f64).collect();
        for hist in [example, comp] {
            for w0 in [0.1, 0.5, 0.8] {
                for c in [1.0, 7.0, 20.0] {
                    rep.evaluations += 1;
                    let pars = [w0, c];
                    let ll = hooks::log_likelihood(&pars, &hist);
                    let g = hooks::grad_ll(&pars, &hist);
                    let mut sl = 0.0;
                    let (mut sw, mut sc) = (0.0, 0.0);
                    // magnitude of the summed terms: sums of large counts cancel, so the tolerance is relative to it
                    let (mut mw, mut mc) = (0.0f64, 0.0f64);
                    for (j, n) in hist.iter().enumerate() {
                        sl += n * ln_mix(w0, c, j + 1);
                        let (dw, dc) = model_grad(w0, c, j + 1);
                        sw += n * dw;
                        sc += n * dc;
                        mw += n * (1.0 / w0 + 1.0 / (1.0 - w0));
                        mc += n * ((j + 1) as f64 / c + 1.0);
                    }
                    if !rel_close(ll, sl, 1e-9) || (g[0] - sw).abs() > 1e-9 * mw || (g[1] - sc).abs() > 1e-9 * mc {
                        rep.violate(format!("linearity w0={w0} c={c} len={}", hist.len()), format!("composite histogram: ll {ll} vs {sl}, grad ({},{}) vs ({sw},{sc})", g[0], g[1]), json!({"part": "linearity", "w0": w0, "c": c}));
                    }
                }
            }
        }
        rep.corner("composite_histograms");
    }
    rep.completed.push("(3) likelihood/gradient basis".into());
    // ---------- (2) cutoff rule on the grid
    let mut w0g: Vec<f64> = vec![0.01];
    w0g.extend((1..=19).map(|i| i as f64 * 0.05));
    w0g.push(0.99);
    for w0 in &w0g {
        for c in [1.0, 1.5, 2.0, 3.0, 5.0, 10.0, 20.0, 40.0, 80.0] {
            idx += 1;
            if !ctx.mine(idx) {
                continue;
            }
            for len in 1..=(if thorough { 400usize } else { 100 }) {
                rep.evaluations += 1;
                rep.nontrivial += 1;
                let got = hooks::find_cutoff(&[*w0, c], len);
                let (want, tie) = model_cutoff(*w0, c, len);
                rep.outcome(&("cutoff", want));
                if got != want && !(tie && got.abs_diff(want) <= 1) {
                    rep.violate(format!("cutoff w0={w0} c={c} len={len}"), format!("find_cutoff(w0={w0}, c={c}, table length {len}) = {got}, the definition gives {want}"), json!({"part": "cutoff", "w0": w0, "c": c, "len": len}));
                }
            }
        }
    }
    rep.completed.push("(2) cutoff grid".into());
    // ---------- (1) counting and table
    let ks: Vec<usize> = if thorough { vec![7, 15, 21, 31, 33, 63] } else { vec![7, 31, 33] };
    for k in ks {
        for rc in [true, false] {
            // designed histograms: last bucket 49 / 50 / 51, empty buckets inside, counts up to 12
            let mut designs: Vec<Vec<(usize, usize)>> = Vec::new();
            for last in [49usize, 50, 51] {
                designs.push(vec![(1, 300), (2, 120), (3, 60), (5, last), (6, 10)]);
                designs.push(vec![(1, 80), (2, last)]);
                designs.push(vec![(1, 55), (4, 70), (9, 52), (12, last)]);
                designs.push(vec![(1, last)]);
                designs.push(vec![(2, 200), (3, 50), (4, last), (5, 49)]);
            }
            designs.push(vec![(1, 400), (2, 90), (3, 30), (8, 100), (9, 160), (10, 200), (11, 150), (12, 80), (13, 20)]);
            // a long table: an over-represented segment (adapter, plasmid) seen 250 and 600 times
            designs.push(vec![(1, 300), (2, 80), (20, 120), (250, 60)]);
            designs.push(vec![(1, 100), (30, 200), (600, 55)]);
            // multiplicities at and beyond the end of the table: exactly 1000 (last row), 1001 and 1200 (not tabulated)
            designs.push(vec![(1, 100), (2, 60), (1000, 55)]);
            designs.push(vec![(1, 100), (2, 60), (1001, 55), (1200, 60)]);
            // reads of exactly k letters (one k-mer each), of k+1 letters, and reads too short to hold a k-mer
            let mut exact: Vec<(usize, usize)> = vec![(1, 120)];
            exact.extend(std::iter::repeat((3usize, 1usize)).take(60));
            exact.extend(std::iter::repeat((2usize, 2usize)).take(30));
            designs.push(exact);
            let short_design = designs.len() - 1;
            // histograms that ARE a two-Poisson mixture (30 000 split k-mers): high error weight x low coverage, so that
            // the fit lands where the components cross at or above the fitted coverage
            if k >= 31 {
                for w0 in [0.8f64, 0.9, 0.93, 0.95, 0.97] {
                    for c in [3.5f64, 4.3, 4.85, 5.5, 6.5, 8.0] {
                        let des: Vec<(usize, usize)> = (1..=40usize).map(|i| (i, (30000.0 * ln_mix(w0, c, i).exp()).round() as usize)).filter(|(_, n)| *n > 0).collect();
                        designs.push(des);
                    }
                }
            }
            for (di, des) in designs.iter().enumerate() {
                idx += 1;
                if !ctx.mine(idx) {
                    continue;
                }
                if ctx.expired() {
                    rep.capped = true;
                    return;
                }
                let mut files = designed_reads(des, k, ctx.seed + 200 + di as u64);
                if di == short_design {
                    // reads of k-1, (k-1)/2 and 1 letters taken from the same segments: they add nothing
                    let extra: Vec<Vec<u8>> = files[0].iter().take(12).enumerate().map(|(i, r)| r[..[k - 1, (k - 1) / 2, 1][i % 3]].to_vec()).collect();
                    for (i, e) in extra.into_iter().enumerate() {
                        files[i % 2].push(e);
                    }
                    rep.corner("reads_of_exactly_k_letters_and_shorter");
                }
                rep.evaluations += 1;
                rep.nontrivial += 1;
                let (_, table) = model_table(&files, k, rc);
                rep.outcome(&table);
                if des.iter().any(|(_, n)| *n == 50) {
                    rep.corner("last_bucket_shared_by_exactly_50_kmers");
                }
                if des.iter().any(|(_, n)| *n == 49) {
                    rep.corner("bucket_of_49_kmers");
                }
                TWO_MEMBER_GZIP.store(di % 3 == 1, std::sync::atomic::Ordering::Relaxed);
                if di % 3 == 1 {
                    rep.corner("read_files_as_two_member_gzip");
                }
                let verdict = check_readset(&files, k, rc, di % 2 == 0 || thorough);
                TWO_MEMBER_GZIP.store(false, std::sync::atomic::Ordering::Relaxed);
                if CROSSING_ABOVE_C.swap(0, std::sync::atomic::Ordering::Relaxed) > 0 {
                    rep.corner("fit_whose_components_cross_above_the_fitted_coverage");
                }
                match verdict {
                    Ok(_) => {}
                    Err(e) => rep.violate(format!("designed k={k} rc={rc} design={des:?}"), format!("k={k} rc={rc} designed histogram {des:?}: {e}"), json!({"part": "table", "k": k, "rc": rc, "design": des})),
                }
            }
            // tilings with errors and N
            for (cov, stride) in [(10usize, 10usize), (20, 5), (40, 5)] {
                idx += 1;
                if !ctx.mine(idx) {
                    continue;
                }
                let glen = if thorough { 2000 } else { 800 };
                let g = repeat_free(glen, k.max(9), 0, ctx.seed + 400);
                let rl = cov * stride;
                let mut f: [Reads; 2] = [Vec::new(), Vec::new()];
                let mut p = 0;
                let mut n = 0usize;
                while p + rl <= g.len() {
                    let mut r = g[p..p + rl].to_vec();
                    if n % 7 == 3 {
                        let e = (n * 13) % rl;
                        r[e] = comp(r[e]);
                    }
                    if n % 11 == 5 {
                        r[rl / 2] = b'N';
                    }
                    if n % 2 == 1 {
                        r = rc_str_n(&r);
                    }
                    f[n % 2].push(r);
                    p += stride;
                    n += 1;
                }
                rep.evaluations += 1;
                rep.nontrivial += 1;
                rep.corner("tiling_with_errors_and_N");
                if let Err(e) = check_readset(&f, k, rc, true) {
                    rep.violate(format!("tiling k={k} rc={rc} cov={cov}"), format!("k={k} rc={rc} tiling read length {rl} stride {stride}: {e}"), json!({"part": "tiling", "k": k, "rc": rc, "cov": cov}));
                }
            }
        }
        rep.completed.push(format!("(1) counting/table k={k}"));
    }
    rep.sample(json!({"part": "table", "k": 31, "design": [[1, 300], [2, 120], [3, 60], [5, 50], [6, 10]], "expected_rows": [300, 120, 60, 0, 50]}));
    rep.sample(json!({"part": "cutoff", "w0": 0.8, "c": 20.0, "len": 77, "definition": "smallest i>=1 with w0*Pois(i;1) < (1-w0)*Pois(i;c), capped at the table length"}));
    rep.sample(json!({"part": "gradient", "i": 17, "w0": 0.35, "c": 13.0}));
}
