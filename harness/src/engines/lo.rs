//! Shared by C11, C17, C18: planted-variant sample families for `ska lo`, running the CLI,
//! parsing its three output files.

use std::collections::BTreeMap;

use crate::cli;
use crate::enumerate::repeat_free;
use crate::refmodel::*;

/// ancestor whose (k-1)-mers are unique on both strands
pub fn ancestor(len: usize, k: usize, member: u64) -> Vec<u8> {
    repeat_free(len, k - 1, 1, member)
}

pub fn alt_base(b: u8, which: u8) -> u8 {
    match which {
        0 => b,
        1 => comp(b),
        _ => match b {
            b'A' | b'T' => b'C',
            _ => b'A',
        },
    }
}

#[derive(Clone, Debug)]
pub struct SnpCase {
    pub k: usize,
    pub ancestor: Vec<u8>,
    pub sites: Vec<usize>,
    /// per site per sample allele 0/1/2
    pub alleles: Vec<Vec<u8>>,
    pub flip: Vec<bool>,
}

impl SnpCase {
    pub fn n(&self) -> usize {
        self.flip.len()
    }
    pub fn sample_seq(&self, i: usize) -> Vec<u8> {
        let mut s = self.ancestor.clone();
        for (si, p) in self.sites.iter().enumerate() {
            s[*p] = alt_base(self.ancestor[*p], self.alleles[si][i]);
        }
        s
    }
    pub fn samples(&self) -> Vec<Vec<Vec<u8>>> {
        (0..self.n()).map(|i| vec![if self.flip[i] { rc_str(&self.sample_seq(i)) } else { self.sample_seq(i) }]).collect()
    }
    pub fn planted_columns(&self) -> Vec<Vec<u8>> {
        let mut v: Vec<Vec<u8>> = self.sites.iter().enumerate().map(|(si, p)| canon_col(&(0..self.n()).map(|i| alt_base(self.ancestor[*p], self.alleles[si][i])).collect::<Vec<u8>>())).collect();
        v.sort();
        v
    }
    /// Premise of C17 re-checked on the derived samples (DESIGN §4 rule 1): in the JOINT graph of all samples every
    /// canonical (k-1)-mer belongs to one locus only and none is its own reverse complement. A substitution that
    /// creates a (k-1)-mer which already exists elsewhere (or at the same locus on the other strand) makes the
    /// graph ambiguous; such cases are not judged for completeness.
    pub fn premise(&self) -> bool {
        let mut locus: BTreeMap<Vec<u8>, usize> = BTreeMap::new();
        for i in 0..self.n() {
            let s = self.sample_seq(i);
            for (p, w) in s.windows(self.k - 1).enumerate() {
                let r = rc_str(w);
                if r == w {
                    return false;
                }
                let c = if r < w.to_vec() { r } else { w.to_vec() };
                match locus.get(&c) {
                    Some(q) if *q != p => return false,
                    _ => {
                        locus.insert(c, p);
                    }
                }
            }
        }
        true
    }
}

pub fn canon_col(c: &[u8]) -> Vec<u8> {
    let cc: Vec<u8> = c.iter().map(|b| if matches!(*b, b'A' | b'C' | b'G' | b'T') { comp(*b) } else { *b }).collect();
    if cc < c.to_vec() {
        cc
    } else {
        c.to_vec()
    }
}

pub struct LoOut {
    pub code: i32,
    pub stderr_tail: String,
    pub snp_names: Vec<String>,
    pub snp_seqs: Vec<Vec<u8>>,
    pub snps_vcf: Option<String>,
    pub pseudo: Option<(Vec<String>, Vec<Vec<u8>>)>,
    pub indels_vcf: String,
}

fn parse_fasta_file(p: &str) -> Option<(Vec<String>, Vec<Vec<u8>>)> {
    std::fs::read(p).ok().map(|b| crate::real::parse_fasta(&b))
}

/// Sample names in an order that is neither alphabetical nor numeric, so that an output which lists samples in sorted
/// order (or any order other than the input's) cannot pass for correct
pub fn sample_name(i: usize) -> String {
    const P: [&str; 12] = ["zeta", "mu", "alpha", "rho", "beta", "xi", "kappa", "delta", "pi", "eta", "omega", "chi"];
    format!("{}{}", P[i % 12], i)
}

pub fn sample_names(n: usize) -> Vec<String> {
    (0..n).map(sample_name).collect()
}

/// Columns of a VCF body reordered to input order by the names in its #CHROM line; Err if the names differ
pub fn gt_order(vcf: &str, names: &[String]) -> Result<Vec<usize>, String> {
    let header = vcf.lines().find(|l| l.starts_with("#CHROM")).ok_or("no #CHROM line in the VCF")?;
    let cols: Vec<&str> = header.split('\t').skip(9).collect();
    names
        .iter()
        .map(|n| cols.iter().position(|c| c == n).ok_or(format!("VCF header lists samples {cols:?}, sample {n} is missing")))
        .collect::<Result<Vec<usize>, String>>()
        .and_then(|o| if cols.len() == names.len() { Ok(o) } else { Err(format!("VCF header lists {} samples for {} in the file", cols.len(), names.len())) })
}

/// Write samples, `ska build`, `ska lo` in `dir`. Extra args e.g. ["-m","0.2"].
pub fn run_lo(dir: &str, k: usize, samples: &[Vec<Vec<u8>>], reference: Option<&[u8]>, extra: &[&str], threads: usize, hash_seed: Option<u64>) -> Result<LoOut, String> {
    let _ = std::fs::remove_dir_all(dir);
    std::fs::create_dir_all(dir).map_err(|e| format!("{e}"))?;
    let mut args: Vec<String> = vec!["build".into(), "-k".into(), k.to_string(), "-o".into(), "in".into()];
    for (i, s) in samples.iter().enumerate() {
        std::fs::write(format!("{dir}/{}.fa", sample_name(i)), crate::scratch::fasta(s)).unwrap();
        args.push(format!("{}.fa", sample_name(i)));
    }
    let av: Vec<&str> = args.iter().map(|s| s.as_str()).collect();
    let b = cli::run(&av, dir, hash_seed);
    if b.code != 0 {
        return Err(format!("MACHINERY ska build failed: {}", String::from_utf8_lossy(&b.stderr)));
    }
    lo_on_file(dir, reference, extra, threads, hash_seed)
}

/// Orientation of the reference given to `lo -r` by C17: 0 = chosen from the case, 1 = the ancestor, 2 = its reverse
/// complement (recorded in the case so that a replay uses the same one)
pub static REF_ORIENT: std::sync::atomic::AtomicUsize = std::sync::atomic::AtomicUsize::new(0);

/// How the reference FASTA of `lo -r` is laid out (set by C17 per case; 0 = one line, LF).
pub static REF_DRESS: std::sync::atomic::AtomicUsize = std::sync::atomic::AtomicUsize::new(0);

/// 0: one line, LF; 1: lines of 60, LF; 2: lines of 70, CRLF; 3: header with description, lines of 50, no final newline
pub fn dressed_reference(r: &[u8], dress: usize) -> Vec<u8> {
    let (width, eol, header): (usize, &[u8], &str) = match dress % 4 {
        0 => (r.len().max(1), b"\n", ">refgenome"),
        1 => (60, b"\n", ">refgenome"),
        2 => (70, b"\r\n", ">refgenome"),
        _ => (50, b"\n", ">refgenome complete genome, len=x"),
    };
    let mut out = header.as_bytes().to_vec();
    out.extend_from_slice(eol);
    for chunk in r.chunks(width) {
        out.extend_from_slice(chunk);
        out.extend_from_slice(eol);
    }
    if dress % 4 == 3 {
        out.pop();
    }
    out
}

pub fn lo_on_file(dir: &str, reference: Option<&[u8]>, extra: &[&str], threads: usize, hash_seed: Option<u64>) -> Result<LoOut, String> {
    // the files lo always writes are pre-filled with a longer stale file (they must be replaced); the two that only a
    // reference run writes are removed otherwise
    for f in ["out_snps.fas", "out_indels.vcf"] {
        crate::scratch::stale(&format!("{dir}/{f}"));
    }
    for f in ["out_snps.vcf", "out_pseudo_genomes.fas"] {
        if reference.is_some() {
            crate::scratch::stale(&format!("{dir}/{f}"));
        } else {
            let _ = std::fs::remove_file(format!("{dir}/{f}"));
        }
    }
    let ts = threads.to_string();
    let mut a: Vec<&str> = vec!["lo", "in.skf", "out", "--threads", &ts];
    if let Some(r) = reference {
        std::fs::write(format!("{dir}/ref.fa"), dressed_reference(r, REF_DRESS.load(std::sync::atomic::Ordering::Relaxed))).unwrap();
        a.extend(["-r", "ref.fa"]);
    }
    a.extend(extra.iter());
    let o = cli::run(&a, dir, hash_seed);
    let tail: String = String::from_utf8_lossy(&o.stderr).lines().filter(|l| l.contains("panicked") || l.contains("rror")).take(2).collect::<Vec<_>>().join(" / ");
    let (snp_names, snp_seqs) = parse_fasta_file(&format!("{dir}/out_snps.fas")).unwrap_or_default();
    // sequences are attributed to samples by their names: put them into input order when the names are exactly the
    // input's (any other name list is left as it is and fails the callers' checks on names)
    let nsamples = std::fs::read_dir(dir).map(|d| d.filter_map(|e| e.ok()).filter(|e| e.file_name().to_string_lossy().ends_with(".fa") && e.file_name() != "ref.fa").count()).unwrap_or(0);
    let expected = sample_names(nsamples);
    let reorder = |names: &Vec<String>, seqs: Vec<Vec<u8>>| -> (Vec<String>, Vec<Vec<u8>>) {
        let mut sorted = names.clone();
        sorted.sort();
        let mut exp_sorted = expected.clone();
        exp_sorted.sort();
        if sorted == exp_sorted && seqs.len() == names.len() {
            let seqs2 = expected.iter().map(|n| seqs[names.iter().position(|x| x == n).unwrap()].clone()).collect();
            (expected.clone(), seqs2)
        } else {
            (names.clone(), seqs)
        }
    };
    let (snp_names, snp_seqs) = reorder(&snp_names, snp_seqs);
    Ok(LoOut {
        code: o.code,
        stderr_tail: tail,
        snp_names,
        snp_seqs,
        snps_vcf: std::fs::read_to_string(format!("{dir}/out_snps.vcf")).ok(),
        pseudo: parse_fasta_file(&format!("{dir}/out_pseudo_genomes.fas")).map(|(n, q)| reorder(&n, q)),
        indels_vcf: std::fs::read_to_string(format!("{dir}/out_indels.vcf")).unwrap_or_default(),
    })
}

/// SNP alignment columns, canonical up to complement, sorted
pub fn snp_columns(o: &LoOut) -> Result<Vec<Vec<u8>>, String> {
    let cols = crate::real::columns_of(&o.snp_seqs)?;
    let mut v: Vec<Vec<u8>> = cols.iter().map(|c| canon_col(c)).collect();
    v.sort();
    Ok(v)
}

#[derive(Clone, Debug)]
pub struct IndelRecord {
    pub ref_allele: String,
    pub alt_allele: String,
    pub before: String,
    pub after: String,
    pub gts: Vec<String>,
}

/// records with genotypes in the order of `names` (looked up in the header); positional when `names` is None
pub fn parse_indels_named(vcf: &str, names: &[String]) -> Result<Vec<IndelRecord>, String> {
    let recs = parse_indels(vcf);
    if recs.is_empty() {
        return Ok(recs);
    }
    let order = gt_order(vcf, names).map_err(|e| format!("indel VCF: {e}"))?;
    recs.into_iter()
        .map(|mut r| {
            if r.gts.len() != names.len() {
                return Err(format!("{} genotype columns for {} samples", r.gts.len(), names.len()));
            }
            r.gts = order.iter().map(|c| r.gts[*c].clone()).collect();
            Ok(r)
        })
        .collect()
}

pub fn parse_indels(vcf: &str) -> Vec<IndelRecord> {
    let mut v = Vec::new();
    for l in vcf.lines() {
        if l.starts_with('#') || l.is_empty() {
            continue;
        }
        let f: Vec<&str> = l.split('\t').collect();
        if f.len() < 10 {
            continue;
        }
        let mut info: BTreeMap<&str, &str> = BTreeMap::new();
        for kv in f[6].split(';') {
            if let Some((a, b)) = kv.split_once('=') {
                info.insert(a, b);
            }
        }
        v.push(IndelRecord {
            ref_allele: f[3].to_string(),
            alt_allele: f[4].to_string(),
            before: info.get("before").unwrap_or(&"").to_string(),
            after: info.get("after").unwrap_or(&"").to_string(),
            gts: f[9..].iter().map(|s| s.to_string()).collect(),
        });
    }
    v
}
