//! C11 part 3 — schedule exploration for the one racy structure: the neighbour vectors that
//! `skalo::input::build_graph` fills through `DashMap::entry(key).or_default().push(v)` from
//! `par_bridge` workers. An explicit-state interleaving model enumerates every reachable final
//! graph; the model is bound to the code in three ways (see `run`).

use bit_set::BitSet;
use hashbrown::{HashMap, HashSet};
use serde_json::json;
use std::collections::{BTreeMap, BTreeSet, VecDeque};

use ska::merge_ska_array::MergeSkaArray;
use ska::skalo::extremities::identify_good_kmers;
use ska::skalo::input::build_graph;
use ska::skalo::read_graph::build_variant_groups;
use ska::skalo::utils::{Config, DataInfo};

use super::lo::{self, SnpCase};
use crate::explore::{hash64, Ctx, Report};
use crate::forkrun::{in_child, ChildResult};
use crate::mirror::{pack, unpack, Mirror};
use crate::real;
use crate::refmodel::*;
use crate::scratch;

type Key = u128;

/// The push operations one row performs, in the order of the base alphabet (A,C,G,T)
fn row_ops(k: usize, key: &str, bases: &[u8]) -> Vec<(Key, Key)> {
    let h = (k - 1) / 2;
    let (left, right) = (&key[..h], &key[h..]);
    let mut nucls: BTreeSet<u8> = BTreeSet::new();
    for b in bases {
        if *b != b'-' {
            if let Some(m) = set_of(*b) {
                for (bit, c) in [(1u8, b'A'), (2, b'C'), (4, b'G'), (8, b'T')] {
                    if m & bit != 0 {
                        nucls.insert(c);
                    }
                }
            }
        }
    }
    let mut ops = Vec::new();
    for n in nucls {
        let full: Vec<u8> = [left.as_bytes(), &[n], right.as_bytes()].concat();
        let k1 = &full[..k - 1];
        let k2 = &full[1..];
        ops.push((pack(k1), pack(k2)));
        ops.push((pack(&rc_str(k2)), pack(&rc_str(k1))));
    }
    ops
}

/// Sequential application of items in the given order: the model's graph
fn apply_in_order(items: &[Vec<(Key, Key)>], order: &[usize]) -> BTreeMap<Key, Vec<Key>> {
    let mut g: BTreeMap<Key, Vec<Key>> = BTreeMap::new();
    for i in order {
        for (k, v) in &items[*i] {
            g.entry(*k).or_default().push(*v);
        }
    }
    g
}

#[derive(Clone, PartialEq, Eq, Hash)]
struct MState {
    next: usize,
    workers: Vec<Option<(usize, usize)>>,
    vecs: BTreeMap<Key, Vec<Key>>,
}

pub struct ModelResult {
    pub finals: BTreeSet<BTreeMap<Key, Vec<Key>>>,
    pub states: u64,
    pub transitions: u64,
    pub shared_items: usize,
    pub shared_keys: usize,
}

/// Every interleaving of W workers pulling the shared items (restricted to their shared-key
/// operations; everything else commutes) from a shared iterator; each push is atomic.
pub fn interleavings(items: &[Vec<(Key, Key)>], w: usize) -> ModelResult {
    // shared keys: pushed by at least two different items
    let mut by_key: BTreeMap<Key, BTreeSet<usize>> = BTreeMap::new();
    for (i, ops) in items.iter().enumerate() {
        for (k, _) in ops {
            by_key.entry(*k).or_default().insert(i);
        }
    }
    let shared: BTreeSet<Key> = by_key.iter().filter(|(_, s)| s.len() > 1).map(|(k, _)| *k).collect();
    let sitems: Vec<Vec<(Key, Key)>> = items.iter().map(|ops| ops.iter().copied().filter(|(k, _)| shared.contains(k)).collect::<Vec<_>>()).filter(|o: &Vec<(Key, Key)>| !o.is_empty()).collect();
    let init = MState { next: 0, workers: vec![None; w], vecs: BTreeMap::new() };
    let mut seen: std::collections::HashSet<u64> = std::collections::HashSet::new();
    let mut q = VecDeque::new();
    seen.insert(hash64(&init));
    q.push_back(init);
    let mut finals = BTreeSet::new();
    let mut transitions = 0u64;
    while let Some(s) = q.pop_front() {
        let mut any = false;
        for wi in 0..w {
            let mut n = s.clone();
            match s.workers[wi] {
                None => {
                    if s.next < sitems.len() {
                        n.workers[wi] = Some((s.next, 0));
                        n.next += 1;
                    } else {
                        continue;
                    }
                }
                Some((it, pc)) => {
                    let (k, v) = sitems[it][pc];
                    n.vecs.entry(k).or_default().push(v);
                    n.workers[wi] = if pc + 1 < sitems[it].len() { Some((it, pc + 1)) } else { None };
                }
            }
            any = true;
            transitions += 1;
            // workers are interchangeable: canonicalise by sorting the worker slots
            n.workers.sort();
            if seen.insert(hash64(&n)) {
                q.push_back(n);
            }
        }
        if !any {
            finals.insert(s.vecs.clone());
        }
    }
    ModelResult { finals, states: seen.len() as u64, transitions, shared_items: sitems.len(), shared_keys: shared.len() }
}

fn array_rows(a: &MergeSkaArray<u64>) -> Vec<(String, Vec<u8>)> {
    let k = a.kmer_len();
    a.iter().map(|(km, b)| (real::key_of(km, k), b)).collect()
}

/// Array with its rows in a chosen order (through the mirror writer + the real loader)
fn array_in_order(k: usize, names: &[String], rows: &[(String, Vec<u8>)]) -> Result<MergeSkaArray<u64>, String> {
    let n = names.len();
    let mut variants = ndarray::Array2::<u8>::zeros((rows.len(), n));
    for (i, (_, r)) in rows.iter().enumerate() {
        for (j, b) in r.iter().enumerate() {
            variants[[i, j]] = *b;
        }
    }
    let m = Mirror::<u64> {
        k,
        rc: true,
        names: names.to_vec(),
        split_kmers: rows.iter().map(|(a, _)| pack(a.as_bytes()) as u64).collect(),
        variants,
        variant_count: rows.iter().map(|(_, r)| r.iter().filter(|b| **b != b'-').count()).collect(),
        ska_version: "0.4.0".into(),
        k_bits: 64,
    };
    let p = scratch::path("c11_perm.skf");
    crate::mirror::write_file(&m, &p);
    MergeSkaArray::<u64>::load(&p).map_err(|e| format!("{e}"))
}

fn graph_to_bytes(g: &HashMap<u64, Vec<u64>>) -> Vec<u8> {
    let m: BTreeMap<String, Vec<String>> = g.iter().map(|(k, v)| (k.to_string(), v.iter().map(|x| x.to_string()).collect())).collect();
    serde_json::to_vec(&m).unwrap()
}

fn graph_from_bytes(b: &[u8]) -> BTreeMap<Key, Vec<Key>> {
    let m: BTreeMap<String, Vec<String>> = serde_json::from_slice(b).unwrap_or_default();
    m.into_iter().map(|(k, v)| (k.parse::<u128>().unwrap(), v.iter().map(|x| x.parse::<u128>().unwrap()).collect())).collect()
}

/// real build_graph in a forked child (it configures the global pool)
fn real_graph(k: usize, names: &[String], rows: &[(String, Vec<u8>)], threads: usize) -> Result<BTreeMap<Key, Vec<Key>>, String> {
    let a = array_in_order(k, names, rows)?;
    match in_child(
        move || {
            let (_, _, g, _) = build_graph(a, threads);
            graph_to_bytes(&g)
        },
        30_000,
    ) {
        ChildResult::Ok(b) => Ok(graph_from_bytes(&b)),
        ChildResult::Timeout => Err("MACHINERY build_graph child timed out".into()),
        other => Err(format!("build_graph failed: {other:?}")),
    }
}

/// real downstream pipeline on a graph whose shared-key vectors are forced to `forced`
fn downstream(k: usize, names: &[String], rows: &[(String, Vec<u8>)], forced: &BTreeMap<Key, Vec<Key>>) -> Result<(Vec<Vec<u8>>, String), String> {
    let a = array_in_order(k, names, rows)?;
    let prefix = scratch::path("c11_sched_out");
    for f in ["_snps.fas", "_indels.vcf"] {
        let _ = std::fs::remove_file(format!("{prefix}{f}"));
    }
    let forced = forced.clone();
    let names_v = names.to_vec();
    let pfx = prefix.clone();
    let r = in_child(
        move || {
            let (len_kmer, sample_names, mut g, idx): (usize, Vec<String>, HashMap<u64, Vec<u64>>, HashMap<u64, BitSet>) = build_graph(a, 1);
            for (key, vals) in &forced {
                let e = g.get_mut(&(*key as u64)).expect("forced key missing in the real graph");
                let mut have: Vec<u64> = e.clone();
                have.sort();
                let mut want: Vec<u64> = vals.iter().map(|x| *x as u64).collect();
                let order = want.clone();
                want.sort();
                assert!(have == want, "forced neighbour set differs from the real one");
                *e = order;
            }
            let data_info = DataInfo { k_graph: len_kmer - 1, sample_names: sample_names.clone() };
            let config = Config { input_file: "in".into(), output_name: pfx.clone(), max_missing: 0.1, max_depth: 4, max_indel_kmers: 2, nb_threads: 1, reference_genome: None };
            let (start, end): (HashSet<u64>, HashSet<u64>) = identify_good_kmers(&g, &idx, &data_info);
            build_variant_groups(g, start, end, idx, &config, &data_info);
            let _ = names_v;
            let mut out = std::fs::read(format!("{pfx}_snps.fas")).unwrap_or_default();
            out.extend_from_slice(b"\n#INDELS#\n");
            out.extend(std::fs::read(format!("{pfx}_indels.vcf")).unwrap_or_default());
            out
        },
        30_000,
    );
    match r {
        ChildResult::Ok(b) => {
            let text = String::from_utf8_lossy(&b).to_string();
            let (fas, indels) = text.split_once("\n#INDELS#\n").unwrap_or((&text, ""));
            let (_, seqs) = real::parse_fasta(fas.as_bytes());
            let cols = real::columns_of(&seqs)?;
            let mut v: Vec<Vec<u8>> = cols.iter().map(|c| lo::canon_col(c)).collect();
            v.sort();
            Ok((v, indels.to_string()))
        }
        ChildResult::Timeout => Err("MACHINERY downstream child timed out".into()),
        other => Err(format!("downstream pipeline failed: {other:?}")),
    }
}

enum Case {
    Snp(SnpCase),
    Indel(super::c18::IndelCase),
}

impl Case {
    fn k(&self) -> usize {
        match self {
            Case::Snp(c) => c.k,
            Case::Indel(c) => c.k,
        }
    }
    fn n(&self) -> usize {
        match self {
            Case::Snp(c) => c.n(),
            Case::Indel(c) => c.n(),
        }
    }
    fn samples(&self) -> Vec<Vec<Vec<u8>>> {
        match self {
            Case::Snp(c) => c.samples(),
            Case::Indel(c) => c.samples(),
        }
    }
    fn premise(&self) -> bool {
        match self {
            Case::Snp(c) => c.premise(),
            Case::Indel(c) => c.premise(),
        }
    }
    fn label(&self) -> String {
        match self {
            Case::Snp(c) => format!("k={} sites={:?} alleles={:?}", c.k, c.sites, c.alleles),
            Case::Indel(c) => format!("k={} indel segs={:?} present={:?}", c.k, c.segs, c.present),
        }
    }
    /// canonical expected result (SNP columns; number of planted indels) and judgement of an output
    fn judge(&self, cols: &[Vec<u8>], indels_vcf: &str) -> Result<String, String> {
        match self {
            Case::Snp(c) => {
                let planted = c.planted_columns();
                if cols != planted.as_slice() {
                    let show = |v: &[Vec<u8>]| v.iter().map(|x| String::from_utf8_lossy(x).to_string()).collect::<Vec<_>>().join(" ");
                    return Err(format!("ska lo reports [{}] instead of the planted [{}]", show(cols), show(&planted)));
                }
                Ok(format!("{planted:?}"))
            }
            Case::Indel(c) => {
                let recs = lo::parse_indels(indels_vcf);
                let mut matched = BTreeSet::new();
                for r in &recs {
                    match super::c18::judge_record(c, r)? {
                        Some(si) => {
                            if !matched.insert(si) {
                                return Err(format!("planted indel {si} reported twice"));
                            }
                        }
                        None => return Err(format!("indel record REF={} ALT={} does not correspond to a planted indel", r.ref_allele, r.alt_allele)),
                    }
                }
                if matched.len() != c.segs.len() {
                    return Err(format!("{} of {} planted indels reported", matched.len(), c.segs.len()));
                }
                Ok(format!("indels {:?} cols {:?}", matched, cols))
            }
        }
    }
}

fn cases(seed: u64, thorough: bool) -> Vec<Case> {
    let mut v = Vec::new();
    let ks: Vec<usize> = if thorough { vec![7, 9, 11] } else { vec![7, 9] };
    for k in ks {
        let anc = lo::ancestor(10 * k + 1, k, seed + 17);
        // one biallelic SNP, one triallelic SNP, two SNPs
        v.push(Case::Snp(SnpCase { k, ancestor: anc.clone(), sites: vec![5 * k], alleles: vec![vec![0, 0, 1]], flip: vec![false, true, false] }));
        v.push(Case::Snp(SnpCase { k, ancestor: anc.clone(), sites: vec![5 * k], alleles: vec![vec![0, 1, 2]], flip: vec![false, false, true] }));
        v.push(Case::Snp(SnpCase { k, ancestor: anc.clone(), sites: vec![3 * k, 7 * k + 1], alleles: vec![vec![0, 1, 1], vec![1, 0, 1]], flip: vec![false, false, false] }));
    }
    // an indel bubble (two paths of unequal length)
    for (k, len) in [(11usize, 2usize), (15, 5)] {
        let base = lo::ancestor(12 * k, k, seed + 18);
        v.push(Case::Indel(super::c18::IndelCase { k, base, segs: vec![(6 * k, len)], present: vec![vec![true, false, true]], flip: vec![false, false, false] }));
    }
    v
}

pub fn run(ctx: &Ctx, rep: &mut Report) {
    let thorough = ctx.tier.thorough();
    let mut idx = 0u64;
    for c in cases(ctx.seed, thorough) {
        idx += 1;
        if !ctx.mine(idx) {
            continue;
        }
        if !c.premise() {
            rep.corner("premise_not_met");
            continue;
        }
        let n = c.n();
        let ck = c.k();
        let names: Vec<String> = (0..n).map(|i| format!("smp{i}")).collect();
        let paths: Vec<String> = (0..n).map(|i| scratch::write(&format!("c11s_{i}.fa"), &scratch::fasta(&c.samples()[i]))).collect();
        let a = match real::build_array::<u64>(&names, &paths, ck, true) {
            Ok(a) => a,
            Err(e) => {
                rep.machinery(format!("C11 sched: build failed: {e}"));
                continue;
            }
        };
        let rows = array_rows(&a);
        let items: Vec<Vec<(Key, Key)>> = rows.iter().map(|(key, b)| row_ops(ck, key, b)).collect();
        let label = c.label();
        // --- the interleaving model
        let mut r_by_w: BTreeMap<usize, ModelResult> = BTreeMap::new();
        for w in [2usize, 3, 4] {
            let m = interleavings(&items, w);
            rep.states += m.states;
            rep.transitions += m.transitions;
            rep.extra.insert(format!("max_R[{label} W={w}]"), json!(m.finals.len()));
            r_by_w.insert(w, m);
        }
        let shared_keys = r_by_w[&2].shared_keys;
        if shared_keys == 0 {
            rep.machinery(format!("C11 sched: no shared key in {label} (vacuous)"));
            continue;
        }
        rep.corner("cases_with_shared_keys");
        // --- (iii) one thread, permuted rows: real graph == model graph for that item order
        let nrows = rows.len();
        let mut perms: Vec<Vec<usize>> = vec![(0..nrows).collect(), (0..nrows).rev().collect(), (0..nrows).map(|i| (i * 7 + 3) % nrows).collect::<Vec<_>>()];
        {
            let p = &mut perms[2];
            // make it a permutation even when 7 divides nrows
            let mut seen = BTreeSet::new();
            if !p.iter().all(|x| seen.insert(*x)) {
                *p = (0..nrows).map(|i| (i + nrows / 2) % nrows).collect();
            }
        }
        for p in &perms {
            rep.evaluations += 1;
            let prow: Vec<(String, Vec<u8>)> = p.iter().map(|i| rows[*i].clone()).collect();
            let pitems: Vec<Vec<(Key, Key)>> = p.iter().map(|i| items[*i].clone()).collect();
            let want = apply_in_order(&pitems, &(0..nrows).collect::<Vec<_>>());
            match real_graph(ck, &names, &prow, 1) {
                Ok(got) => {
                    // keys filled by one item only may differ in order only if that item pushed twice (hash order of the row's bases)
                    let same = got.len() == want.len()
                        && want.iter().all(|(k, v)| match got.get(k) {
                            None => false,
                            Some(g) => {
                                g == v || {
                                    let (mut a, mut b) = (g.clone(), v.clone());
                                    a.sort();
                                    b.sort();
                                    a == b && !r_by_w[&2].finals.iter().next().map_or(false, |f| f.contains_key(k))
                                }
                            }
                        });
                    if same {
                        rep.traces_validated += 1;
                    } else {
                        rep.violate(format!("sched-iii {label}"), format!("{label}: with one thread and rows in a given order the real graph differs from the model's sequential graph (the operation model is not the code's)"), json!({"part": "iii", "case": label}));
                    }
                }
                Err(e) if e.starts_with("MACHINERY") => rep.machinery(e),
                Err(e) => rep.violate(format!("sched-iii {label}"), e, json!({"part": "iii", "case": label})),
            }
        }
        // --- (i) every reachable final graph through the real downstream pipeline
        let r3 = &r_by_w[&3].finals;
        let mut outcomes: BTreeSet<String> = BTreeSet::new();
        for forced in r3.iter() {
            rep.evaluations += 1;
            rep.nontrivial += 1;
            match downstream(ck, &names, &rows, forced) {
                Ok((cols, indels)) => {
                    rep.traces_validated += 1;
                    match c.judge(&cols, &indels) {
                        Ok(canon) => {
                            outcomes.insert(canon);
                        }
                        Err(e) => {
                            outcomes.insert(format!("wrong: {e}"));
                            rep.violate(format!("sched-i {label}"), format!("{label}: under a reachable neighbour order {e}"), json!({"part": "i", "case": label, "order": format!("{:?}", forced.iter().map(|(k, v)| (unpack(*k, ck - 1), v.iter().map(|x| unpack(*x, ck - 1)).collect::<Vec<_>>())).collect::<Vec<_>>())}));
                        }
                    }
                }
                Err(e) if e.starts_with("MACHINERY") => rep.machinery(e),
                Err(e) => rep.violate(format!("sched-i {label}"), e, json!({"part": "i", "case": label})),
            }
        }
        rep.outcome(&outcomes);
        if outcomes.len() > 1 {
            rep.violate(format!("sched-i-distinct {label}"), format!("{label}: different reachable neighbour orders give {} different results", outcomes.len()), json!({"part": "i", "case": label}));
        }
        // --- (ii) real multi-threaded runs land inside the model's reachable set
        let reps = if thorough { 50 } else { 6 };
        let r4 = &r_by_w[&4].finals;
        let shared: BTreeSet<Key> = r4.iter().next().map(|f| f.keys().copied().collect()).unwrap_or_default();
        let mut observed: BTreeSet<BTreeMap<Key, Vec<Key>>> = BTreeSet::new();
        for t in 1..=8usize {
            for _ in 0..reps {
                rep.evaluations += 1;
                match real_graph(ck, &names, &rows, t) {
                    Ok(g) => {
                        let proj: BTreeMap<Key, Vec<Key>> = g.iter().filter(|(k, _)| shared.contains(k)).map(|(k, v)| (*k, v.clone())).collect();
                        if r4.contains(&proj) {
                            rep.traces_validated += 1;
                        } else {
                            rep.violate(format!("sched-ii {label}"), format!("{label}: a real run with {t} threads produced a graph outside the model's reachable set (the interleaving model does not cover the code)"), json!({"part": "ii", "case": label, "threads": t}));
                        }
                        observed.insert(proj);
                    }
                    Err(e) if e.starts_with("MACHINERY") => rep.machinery(e),
                    Err(e) => rep.violate(format!("sched-ii {label}"), e, json!({"part": "ii", "case": label, "threads": t})),
                }
            }
        }
        rep.extra.insert(format!("max_observed_real_graphs[{label}]"), json!(observed.len()));
        rep.sample(json!({"case": label, "shared_keys": shared_keys, "shared_items": r_by_w[&2].shared_items, "reachable_final_graphs": {"W=2": r_by_w[&2].finals.len(), "W=3": r_by_w[&3].finals.len(), "W=4": r_by_w[&4].finals.len()}, "distinct_graphs_observed_in_real_runs": observed.len()}));
    }
    if !rep.capped {
        rep.completed.push("(3) schedule model + conformance".into());
    }
}
