//! C15 — ambiguity codes form the union algebra; complement respects it.
//! Finite domains, enumerated completely.

use serde_json::json;

use ska::ska_dict::bit_encoding::{base_to_prob, decode_base, encode_base, is_ambiguous, rc_base, valid_base, IUPAC, RC_IUPAC};

use crate::explore::{Ctx, Meta, Report};
use crate::forkrun::ChildResult;
use crate::real;
use crate::refmodel::*;
use crate::scratch;

pub fn meta() -> Meta {
    Meta {
        id: "C15",
        level: "exploration",
        rule: "complete enumeration of the finite domains: 4x256 cells of IUPAC, 256 cells of RC_IUPAC, is_ambiguous/base_to_prob on all IUPAC letters+U+gap in both cases, encode/decode/rc/valid on A,C,G,T,U,N both cases; then every ordered sequence of <=4 observed middle bases (both strand modes, incl. self-reverse-complement arms) through a real build, and every code x orientation through the real map strand correction. Non-trivial = a cell/case whose expected value is not the default (0 / '-' / not ambiguous). The weights where they are applied: `ska distance --allow-ambiguous` on a three-sample row (x, y, z) for every ordered pair of the 15 codes (z makes the site variable) prints exactly 1 - sum_b p_x(b) p_y(b) for each pair; and on every table of two such sites (x1, y1, z1), (x2, y2, z2) over the 15 codes, in both row orders, the sum over the two sites; and under --min-freq: a three-sample row over all 16 symbols (gap included, constant rows left out) next to a fixed second row, every threshold 0..3 (a code is a call: the row stays when enough samples have a call).".into(),
        assumptions: vec!["U is not part of the union algebra: RC_IUPAC[U] may be 'A' or '-'".into(),
            "lower-case distance weights may be uniform-over-set or all-zero (stored bases are always upper case)".into()],
        exhaustive_when_uncapped: true,
    }
}

fn is_code_letter(b: u8) -> Option<u8> {
    set_of(b.to_ascii_uppercase()).filter(|_| b.is_ascii_alphabetic())
}

pub fn run(ctx: &Ctx, rep: &mut Report) {
    if ctx.mine(0) {
        run_tables(rep);
    }
    run_two_sites(ctx, rep);
    run_thresholds(ctx, rep);
    rep.completed.push("all".into());
}

/// parts 1-8: the finite tables and single-site families (one shard does them)
fn run_tables(rep: &mut Report) {
    // 1. union table
    for base in [b'A', b'C', b'G', b'T'] {
        let enc = encode_base(base) as usize;
        for cell in 0..256usize {
            rep.evaluations += 1;
            let got = IUPAC[enc * 256 + cell];
            let want = match is_code_letter(cell as u8) {
                Some(set) => code_of(set | base_bit(base)),
                None => 0,
            };
            if want != 0 {
                rep.nontrivial += 1;
                rep.outcome(&("union", want));
            }
            if got != want {
                rep.violate(
                    format!("IUPAC[{}+{}]", base as char, cell),
                    format!("union table: {} + byte {} ({:?}) gives {:?}, expected {:?}", base as char, cell, cell as u8 as char, got as char, want as char),
                    json!({"part":"union","base":base as char,"cell":cell}),
                );
            }
        }
    }
    rep.sample(json!({"part":"union","example":"A + Y -> H"}));
    // 2. complement table
    for cell in 0..256usize {
        rep.evaluations += 1;
        let got = RC_IUPAC[cell];
        let b = cell as u8;
        let ok = if let Some(set) = is_code_letter(b) {
            rep.nontrivial += 1;
            rep.outcome(&("rc", code_of(comp_mask(set))));
            got == code_of(comp_mask(set))
        } else if b == b'U' || b == b'u' {
            got == b'A' || got == b'-'
        } else {
            got == b'-'
        };
        if !ok {
            rep.violate(format!("RC_IUPAC[{cell}]"), format!("complement of byte {cell} ({:?}) is {:?}", b as char, got as char), json!({"part":"rc","cell":cell}));
        }
    }
    // involution and fixed points
    for (code, _) in IUPAC_SETS {
        rep.evaluations += 1;
        let once = RC_IUPAC[code as usize];
        let twice = RC_IUPAC[once as usize];
        if twice != code {
            rep.violate(format!("RC involution {}", code as char), format!("complement is not an involution on {}", code as char), json!({"part":"rc-involution","code":code as char}));
        }
        if matches!(code, b'S' | b'W' | b'N') && once != code {
            rep.violate(format!("RC fixed {}", code as char), format!("complement does not fix {}", code as char), json!({"part":"rc-fixed","code":code as char}));
        }
    }
    if RC_IUPAC[b'-' as usize] != b'-' {
        rep.violate("RC fixed -".into(), "complement does not fix '-'".into(), json!({"part":"rc-fixed","code":"-"}));
    }
    // 3. classification and 4. weights
    let mut domain: Vec<u8> = IUPAC_SETS.iter().map(|x| x.0).collect();
    domain.push(b'U');
    let mut both: Vec<u8> = domain.iter().flat_map(|c| [*c, c.to_ascii_lowercase()]).collect();
    both.push(b'-');
    for b in &both {
        rep.evaluations += 1;
        let up = b.to_ascii_uppercase();
        let want = !matches!(up, b'A' | b'C' | b'G' | b'T' | b'U' | b'-');
        if want {
            rep.nontrivial += 1;
        }
        if is_ambiguous(*b) != want {
            rep.violate(format!("is_ambiguous({})", *b as char), format!("is_ambiguous({:?}) = {}", *b as char, !want), json!({"part":"is_ambiguous","byte":*b as char}));
        }
        // weights, order [A, C, T, G]
        rep.evaluations += 1;
        let p = base_to_prob(*b);
        let set = if up == b'U' { Some(8u8) } else { set_of(up) };
        let uniform: [f64; 4] = match set {
            Some(15) | None => [0.0; 4],
            Some(m) => {
                let n = m.count_ones() as f64;
                let w = |bit: u8| if m & bit != 0 { 1.0 / n } else { 0.0 };
                [w(1), w(2), w(8), w(4)]
            }
        };
        let close = |a: &[f64; 4], b: &[f64; 4]| a.iter().zip(b).all(|(x, y)| (x - y).abs() < 1e-12);
        let ok = if b.is_ascii_lowercase() { close(&p, &uniform) || close(&p, &[0.0; 4]) } else { close(&p, &uniform) };
        rep.outcome(&("prob", up));
        if !ok {
            rep.violate(format!("base_to_prob({})", *b as char), format!("weights of {:?} are {:?}, expected {:?}", *b as char, p, uniform), json!({"part":"base_to_prob","byte":*b as char}));
        }
    }
    // 5. primitive codes
    for b in *b"ACGTUacgtu" {
        rep.evaluations += 1;
        let up = if b.to_ascii_uppercase() == b'U' { b'T' } else { b.to_ascii_uppercase() };
        let e = encode_base(b);
        let want = match up {
            b'A' => 0,
            b'C' => 1,
            b'T' => 2,
            _ => 3,
        };
        if e != want || decode_base(e) != up || decode_base(rc_base(e)) != comp(up) || !valid_base(b) {
            rep.violate(format!("encode({})", b as char), format!("2-bit primitives wrong for {:?}", b as char), json!({"part":"encode","byte":b as char}));
        }
    }
    for b in *b"Nn" {
        rep.evaluations += 1;
        if valid_base(b) {
            rep.violate(format!("valid_base({})", b as char), "N accepted as a base".into(), json!({"part":"valid_base","byte":b as char}));
        }
    }
    // 6. uses: build with repeats, every ordered observation sequence of length 1..4
    let k = 5usize;
    for rc in [false, true] {
        // arms AC?GA: reverse complement TC?GT differs, canonical is the forward one (A < T)
        let arms: (&[u8], &[u8]) = (b"AC", b"GA");
        for len in 1..=4usize {
            crate::enumerate::strings(b"ACGT", len, |obs| {
                rep.evaluations += 1;
                let recs: Vec<Vec<u8>> = obs.iter().map(|m| [arms.0, &[*m], arms.1].concat()).collect();
                // window ends at record end: pad with one letter so the pinned end-of-record defect cannot interfere
                let padded: Vec<Vec<u8>> = recs.iter().map(|r| [r.as_slice(), b"C"].concat()).collect();
                let p = scratch::write("c15.fa", &scratch::fasta(&padded));
                let got = real::build_dict::<u64>(&p, k, rc);
                let want = build(&padded, k, rc);
                rep.outcome(&("build", want.get("ACGA").copied()));
                if len > 1 {
                    rep.nontrivial += 1;
                }
                if got.as_ref().ok() != Some(&want) {
                    rep.violate(
                        format!("build-union rc={rc} obs={}", String::from_utf8_lossy(obs)),
                        format!("observing middle bases {:?} in this order stores {:?}, expected {:?}", String::from_utf8_lossy(obs), got, want),
                        json!({"part":"build-union","rc":rc,"obs":String::from_utf8_lossy(obs)}),
                    );
                }
                true
            });
        }
    }
    // self-reverse-complement arms (AC?GT): W / S / N
    for len in 1..=3usize {
        crate::enumerate::strings(b"ACGT", len, |obs| {
            rep.evaluations += 1;
            rep.nontrivial += 1;
            let padded: Vec<Vec<u8>> = obs.iter().map(|m| [b"AC".as_slice(), &[*m], b"GTC"].concat()).collect();
            let p = scratch::write("c15.fa", &scratch::fasta(&padded));
            let got = real::build_dict::<u64>(&p, k, true);
            let want = build(&padded, k, true);
            rep.outcome(&("palin", want.get("ACGT").copied()));
            if got.as_ref().ok() != Some(&want) {
                rep.violate(
                    format!("palindrome obs={}", String::from_utf8_lossy(obs)),
                    format!("self-rc arms with middle bases {:?}: stored {:?}, expected {:?}", String::from_utf8_lossy(obs), got, want),
                    json!({"part":"palindrome","obs":String::from_utf8_lossy(obs)}),
                );
            }
            true
        });
    }
    rep.sample(json!({"part":"build-union","records":["ACAGAC","ACTGAC","ACGGAC"],"expected_code":"D"}));
    // 7. strand correction of every code in map
    for (code, _) in IUPAC_SETS {
        for flipped in [false, true] {
            rep.evaluations += 1;
            rep.nontrivial += 1;
            // reference window whose canonical orientation is itself (ACxGA) or its reverse complement (TCxGT)
            // (one padding letter so that the window does not end at the record end)
            let reference: Vec<u8> = if flipped { b"TCAGTC".to_vec() } else { b"ACAGAC".to_vec() };
            let refp = scratch::write("c15ref.fa", &scratch::fasta(&[reference.clone()]));
            let mut rows = std::collections::BTreeMap::new();
            rows.insert("ACGA".to_string(), vec![code]);
            let t = Table { k, rc: true, names: vec!["s".into()], rows };
            let want_mid = if flipped { rc_code(code) } else { code };
            rep.outcome(&("map", want_mid));
            match real::map_child::<u64>(&refp, &t, false, false, 1, false) {
                ChildResult::Ok(out) => {
                    let (_, seqs) = real::parse_fasta(&out);
                    let mut want = reference.clone();
                    want[2] = want_mid;
                    want[5] = b'-';
                    if seqs.len() != 1 || seqs[0] != want {
                        rep.violate(
                            format!("map-strand {} flipped={flipped}", code as char),
                            format!("map of stored code {} on a {} reference k-mer prints {:?}, expected {:?}", code as char, if flipped { "reverse-strand" } else { "forward" }, seqs.first().map(|s| String::from_utf8_lossy(s).to_string()), String::from_utf8_lossy(&want)),
                            json!({"part":"map-strand","code":code as char,"flipped":flipped}),
                        );
                    }
                }
                ChildResult::Timeout => rep.machinery("map child timed out".into()),
                other => rep.violate(
                    format!("map-strand {} flipped={flipped}", code as char),
                    format!("map failed: {:?}", other),
                    json!({"part":"map-strand","code":code as char,"flipped":flipped}),
                ),
            }
        }
    }
    // 8. the weights where they are applied: `ska distance --allow-ambiguous` on a three-sample row (x, y, z) for every
    // pair of symbols x, y (z makes the site variable): every pairwise distance is 1 - sum_b p_x(b) p_y(b) with p uniform
    // over the code's set and zero for N
    {
        let weight = |c: u8| -> [f64; 4] {
            // order A, C, G, T
            let set = if c == b'N' { 0 } else { set_of(c).unwrap_or(0) };
            let n = set.count_ones() as f64;
            let mut w = [0.0; 4];
            for (i, b) in [b'A', b'C', b'G', b'T'].iter().enumerate() {
                if set & set_of(*b).unwrap() != 0 {
                    w[i] = 1.0 / n;
                }
            }
            w
        };
        let dist = |a: u8, b: u8| -> f64 { 1.0 - weight(a).iter().zip(weight(b)).map(|(p, q)| p * q).sum::<f64>() };
        let symbols: Vec<u8> = IUPAC_SETS.iter().map(|(c, _)| *c).collect();
        for x in &symbols {
            for y in &symbols {
                rep.evaluations += 1;
                rep.nontrivial += 1;
                let z = if x != y { *x } else if *x == b'A' { b'C' } else { b'A' };
                let mut rows = std::collections::BTreeMap::new();
                rows.insert("ACGA".to_string(), vec![*x, *y, z]);
                let t = Table { k, rc: true, names: vec!["s0".into(), "s1".into(), "s2".into()], rows };
                let want: Vec<String> = [(0usize, 1usize, dist(*x, *y)), (0, 2, dist(*x, z)), (1, 2, dist(*y, z))].iter().map(|(i, j, d)| format!("s{i}\ts{j}\t{:.2}\t{:.5}", d, 0.0)).collect();
                rep.outcome(&("weights", want.clone()));
                match super::c14::real_distance(&t, 0.0, true) {
                    Ok(got) if got == want => {}
                    other => rep.violate(
                        format!("distance-weights {} {}", *x as char, *y as char),
                        format!("ska distance --allow-ambiguous on the row ({}, {}, {}): {:?}, the uniform weights give {:?}", *x as char, *y as char, z as char, other, want),
                        json!({"part":"distance-weights","x":*x as char,"y":*y as char}),
                    ),
                }
            }
        }
    }
}

fn run_two_sites(ctx: &Ctx, rep: &mut Report) {
    let k = 5usize;
    let mut idx = 0u64;
    // 9. the weights are applied per site: two ambiguous sites in one table, every (x1, y1, x2, y2) over the 15 codes, in
    // both row orders (a third sample keeps both sites variable): each pairwise distance is the sum of the two sites'
    {
        let weight = |c: u8| -> [f64; 4] {
            let set = if c == b'N' { 0 } else { set_of(c).unwrap_or(0) };
            let n = set.count_ones() as f64;
            let mut w = [0.0; 4];
            for (i, b) in [b'A', b'C', b'G', b'T'].iter().enumerate() {
                if set & set_of(*b).unwrap() != 0 {
                    w[i] = 1.0 / n;
                }
            }
            w
        };
        let dist = |a: u8, b: u8| -> f64 { 1.0 - weight(a).iter().zip(weight(b)).map(|(p, q)| p * q).sum::<f64>() };
        let third = |x: u8, y: u8| -> u8 { if x != y { x } else if x == b'A' { b'C' } else { b'A' } };
        let symbols: Vec<u8> = IUPAC_SETS.iter().map(|(c, _)| *c).collect();
        for x1 in &symbols {
            for y1 in &symbols {
                idx += 1;
                if !ctx.mine(idx) {
                    continue;
                }
                let z1 = third(*x1, *y1);
                for x2 in &symbols {
                    for y2 in &symbols {
                        let z2 = third(*x2, *y2);
                        for keys in [["ACGA", "CAAG"], ["CAAG", "ACGA"]] {
                            rep.evaluations += 1;
                            rep.nontrivial += 1;
                            let mut rows = std::collections::BTreeMap::new();
                            rows.insert(keys[0].to_string(), vec![*x1, *y1, z1]);
                            rows.insert(keys[1].to_string(), vec![*x2, *y2, z2]);
                            let t = Table { k, rc: true, names: vec!["s0".into(), "s1".into(), "s2".into()], rows };
                            let want: Vec<String> = [(0usize, 1usize, dist(*x1, *y1) + dist(*x2, *y2)), (0, 2, dist(*x1, z1) + dist(*x2, z2)), (1, 2, dist(*y1, z1) + dist(*y2, z2))].iter().map(|(i, j, d)| format!("s{i}\ts{j}\t{:.2}\t{:.5}", d, 0.0)).collect();
                            rep.outcome(&("weights2", want.clone()));
                            match super::c14::real_distance(&t, 0.0, true) {
                                Ok(got) if got == want => {}
                                other => rep.violate(
                                    format!("distance-weights-two-sites {}{} {}{} {}", *x1 as char, *y1 as char, *x2 as char, *y2 as char, keys[0]),
                                    format!("ska distance --allow-ambiguous on the rows {}=({}, {}, {}) and {}=({}, {}, {}): {:?}, the uniform weights summed over the two sites give {:?}", keys[0], *x1 as char, *y1 as char, z1 as char, keys[1], *x2 as char, *y2 as char, z2 as char, other, want),
                                    json!({"part":"distance-weights-two-sites","x1":*x1 as char,"y1":*y1 as char,"x2":*x2 as char,"y2":*y2 as char,"first_key":keys[0]}),
                                ),
                            }
                        }
                    }
                }
            }
        }
    }
}

/// 10. the weights under a frequency threshold: `ska distance --allow-ambiguous --min-freq f` on three samples, a row
/// (x, y, z) over all 16 symbols (gap included) next to a fixed second row, every threshold 0..3. With
/// --allow-ambiguous a code is a call like any other: the row stays when at least `threshold` samples have a call, and
/// then weighs 1 - sum_b p_x(b) p_y(b) for each pair with two calls.
fn run_thresholds(ctx: &Ctx, rep: &mut Report) {
    let k = 5usize;
    let weight = |c: u8| -> [f64; 4] {
        let set = if c == b'N' { 0 } else { set_of(c).unwrap_or(0) };
        let n = set.count_ones() as f64;
        let mut w = [0.0; 4];
        for (i, b) in [b'A', b'C', b'G', b'T'].iter().enumerate() {
            if set & set_of(*b).unwrap() != 0 {
                w[i] = 1.0 / n;
            }
        }
        w
    };
    let dist = |a: u8, b: u8| -> f64 { 1.0 - weight(a).iter().zip(weight(b)).map(|(p, q)| p * q).sum::<f64>() };
    let mut symbols: Vec<u8> = IUPAC_SETS.iter().map(|(c, _)| *c).collect();
    symbols.push(b'-');
    let second: [u8; 3] = [b'A', b'C', b'-'];
    let mut idx = 0u64;
    for x in &symbols {
        for y in &symbols {
            idx += 1;
            if !ctx.mine(idx) {
                continue;
            }
            for z in &symbols {
                if *x == b'-' && *y == b'-' && *z == b'-' {
                    continue;
                }
                let first = [*x, *y, *z];
                // (a row whose calls are all the same symbol is a constant site and is not weighed at all: left out,
                // as in parts 8 and 9)
                let calls: std::collections::BTreeSet<u8> = first.iter().copied().filter(|b| *b != b'-').collect();
                if calls.len() < 2 {
                    continue;
                }
                let mut rows = std::collections::BTreeMap::new();
                rows.insert("ACGA".to_string(), first.to_vec());
                rows.insert("CAAG".to_string(), second.to_vec());
                let t = Table { k, rc: true, names: vec!["s0".into(), "s1".into(), "s2".into()], rows };
                for thr in 0..=3usize {
                    rep.evaluations += 1;
                    rep.nontrivial += 1;
                    let kept: Vec<&[u8; 3]> = [&first, &second].into_iter().filter(|r| r.iter().filter(|b| **b != b'-').count() >= thr).collect();
                    let mut want = Vec::new();
                    for i in 0..3usize {
                        for j in (i + 1)..3 {
                            let d: f64 = kept.iter().filter(|r| r[i] != b'-' && r[j] != b'-').map(|r| dist(r[i], r[j])).sum::<f64>() + 0.0; // (+ 0.0: an empty f64 sum is -0.0)
                            let one = kept.iter().filter(|r| (r[i] == b'-') != (r[j] == b'-')).count();
                            let any = kept.iter().filter(|r| r[i] != b'-' || r[j] != b'-').count();
                            let mm = if any == 0 { 0.0 } else { one as f64 / any as f64 };
                            want.push(format!("s{i}\ts{j}\t{:.2}\t{:.5}", d, mm));
                        }
                    }
                    rep.outcome(&("weights-thr", want.clone()));
                    match super::c14::real_distance(&t, freq_for_threshold(thr, 3), true) {
                        Ok(got) if got == want => {}
                        other => rep.violate(
                            format!("distance-weights-threshold {}{}{} thr={thr}", *x as char, *y as char, *z as char),
                            format!("ska distance --allow-ambiguous --min-freq {:.3} (threshold {thr} of 3) on the rows ({}, {}, {}) and (A, C, -): {:?}, expected {:?}", freq_for_threshold(thr, 3), *x as char, *y as char, *z as char, other, want),
                            json!({"part":"distance-weights-threshold","x":*x as char,"y":*y as char,"z":*z as char,"thr":thr}),
                        ),
                    }
                }
            }
        }
    }
}
