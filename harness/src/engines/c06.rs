//! C06 — align emits exactly the k-mer columns that pass the requested filters.

use serde_json::{json, Value};
use std::collections::BTreeMap;

use ska::merge_ska_array::MergeSkaArray;

use crate::cli;
use crate::enumerate::{nth_string, strings};
use crate::explore::{Ctx, Meta, Report};
use crate::mirror::FileState;
use crate::real;
use crate::refmodel::*;
use crate::scratch;

pub const SYMS16: &[u8] = b"ACGT-RYSWKMBDHVN";

pub fn meta() -> Meta {
    Meta {
        id: "C06",
        level: "exploration",
        rule: "forged tables through the real apply_filters+write_fasta and filter(update_kmers)+iter, compared with the row predicate of the statement: (a) every row over the 16 symbols {A,C,G,T,-,R,Y,S,W,K,M,B,D,H,V,N} for 1..3 samples and over {A,C,-,N,R,S} for 4..5 samples (thorough: all 16 symbols for 4 samples, {A,C,G,-,N,R,S,W} for 5) as a one-row table; (b) every ordered pair of 40 representative rows and every ordered triple of 12 (3 samples), both update_kmers settings, so the three parallel vectors must stay aligned under removal; (c) 6..12 samples with 'j copies of x, rest y' rows; (c2) symbol-rich rows for 7..12 samples: m = 0..n-1 distinct non-base symbols (every rotation of the eleven ambiguity codes and the gap) followed by bases in four patterns, and the mirrored row; each x 4 site filters x ambig-mask x no-gap-only-sites x filter-ambig-as-missing x every threshold 0..n (frequencies (t-1/2)/n, and additionally t/n where that product is exact in f64); plus a tables of every row count 1..200 (thorough 600) and of 31..129 samples under a selection of specifications; CLI family (each case as a k=5 file and, under 32-letter keys, as a k=33 file read through the 128-bit arm) through `ska align` option parsing; decimal --min-freq values whose product with 10 / 20 samples is a whole number, through `ska align` and `ska weed`. Non-trivial = a (table, setting) pair; distinct outcomes = distinct expected column multisets.".into(),
        assumptions: vec!["all-gap rows are unreachable (asserted as an invariant by C10) and excluded".into(), "thresholds use frequencies whose ceil is robust in f64 (DESIGN §4 rule 2)".into()],
        exhaustive_when_uncapped: true,
    }
}

fn table_of(rows: &[Vec<u8>]) -> Table {
    let n = rows[0].len();
    let mut m = BTreeMap::new();
    for (i, r) in rows.iter().enumerate() {
        // distinct keys; spread so that hash order and key order differ
        m.insert(String::from_utf8(nth_string(b"ACGT", 4, (i as u64 * 37 + 11) % 256)).unwrap(), r.clone());
    }
    Table { k: 5, rc: true, names: crate::samples::odd_names(n), rows: m }
}

/// the same rows under 32-letter keys (k = 33)
fn wide(t: &Table) -> Table {
    Table { k: 33, rc: true, names: t.names.clone(), rows: t.rows.iter().map(|(key, r)| (format!("{}{key}{}", "ACGTTGCAAGTCCA", "GATTACAGGTCTCA"), r.clone())).collect() }
}

pub fn all_specs(n: usize) -> Vec<FilterSpec> {
    let mut v = Vec::new();
    for filt in Filt::ALL {
        for mask in [false, true] {
            for nogap in [false, true] {
                for ambig_missing in [false, true] {
                    for thr in 0..=n {
                        v.push(FilterSpec { thr, filt, ambig_missing, mask, nogap });
                    }
                }
            }
        }
    }
    v
}

fn spec_json(f: &FilterSpec) -> Value {
    json!({"thr": f.thr, "filter": f.filt.cli(), "ambig_missing": f.ambig_missing, "mask": f.mask, "nogap": f.nogap})
}

fn spec_from(v: &Value) -> FilterSpec {
    let filt = Filt::ALL.iter().copied().find(|f| f.cli() == v["filter"].as_str().unwrap()).unwrap();
    FilterSpec { thr: v["thr"].as_u64().unwrap() as usize, filt, ambig_missing: v["ambig_missing"].as_bool().unwrap(), mask: v["mask"].as_bool().unwrap(), nogap: v["nogap"].as_bool().unwrap() }
}

fn cols_str(c: &[Vec<u8>]) -> String {
    c.iter().map(|x| String::from_utf8_lossy(x).to_string()).collect::<Vec<_>>().join(" ")
}

/// Returns an error description when the real code disagrees with the model on this (table, spec)
pub fn check_one(t: &Table, f: &FilterSpec, also_update: bool) -> Result<(), String> {
    let n = t.names.len();
    let want = t.filter(f);
    let want_cols = want.columns();
    // route 1: what `ska align` does
    let mut a: MergeSkaArray<u64> = real::forge_array(t);
    let (names, seqs) = real::align_array(&mut a, freq_for_threshold(f.thr, n), f).map_err(|e| format!("align panicked: {e}"))?;
    // the same threshold given as the exact fraction t/n (where n*(t/n) is exactly t in f64)
    if f.thr > 0 {
        let fx = f.thr as f64 / n as f64;
        if n as f64 * fx == f.thr as f64 {
            let mut ax: MergeSkaArray<u64> = real::forge_array(t);
            let (_, seqs_x) = real::align_array(&mut ax, fx, f).map_err(|e| format!("align panicked: {e}"))?;
            if seqs_x != seqs && real::columns_of(&seqs_x)? != real::columns_of(&seqs)? {
                return Err(format!("--min-freq {fx} (= {}/{n} exactly) and --min-freq {} select different columns", f.thr, freq_for_threshold(f.thr, n)));
            }
        }
    }
    if names != t.names {
        return Err(format!("names {names:?}"));
    }
    let cols = if seqs.len() == n { real::columns_of(&seqs)? } else { return Err(format!("{} sequences for {n} samples", seqs.len())) };
    if cols != want_cols {
        return Err(format!("align emits [{}], expected [{}]", cols_str(&cols), cols_str(&want_cols)));
    }
    if also_update {
        // route 2: filter with update_kmers, then read k-mers and rows back through the public iterator
        let mut b: MergeSkaArray<u64> = real::forge_array(t);
        let r = real::catch(|| {
            b.filter(f.thr, f.ambig_missing, &real::filter_type(f.filt), f.mask, f.nogap, true);
        });
        r.map_err(|e| format!("filter panicked: {e}"))?;
        if b.ksize() != want.rows.len() {
            return Err(format!("after filter(update_kmers) ksize()={} but {} rows expected", b.ksize(), want.rows.len()));
        }
        let got = real::array_table(&b)?;
        if got.rows != want.rows {
            return Err(format!("after filter(update_kmers) the k-mer/row pairing is {:?}, expected {:?}", got.rows, want.rows));
        }
    }
    Ok(())
}

fn rows_json(t: &Table) -> Value {
    json!(t.rows.values().map(|r| String::from_utf8_lossy(r).to_string()).collect::<Vec<_>>())
}

fn run_table(rep: &mut Report, t: &Table, specs: &[FilterSpec], also_update: bool) {
    for f in specs {
        rep.evaluations += 1;
        rep.nontrivial += 1;
        if rep.evaluations % 8 == 0 {
            rep.outcome(&t.filter(f).columns());
        }
        if let Err(e) = check_one(t, f, also_update) {
            let rows = rows_json(t);
            // keys are recorded too: the stored row order (= key order) is part of the case
            let keys: Vec<&String> = t.rows.keys().collect();
            rep.violate(format!("rows={rows} spec={}", spec_json(f)), e, json!({"rows": rows, "keys": keys, "tk": t.k, "spec": spec_json(f), "update": also_update}));
        }
    }
}

pub fn replay(case: &Value) -> Result<Option<String>, String> {
    if case.get("cli").is_some() {
        let rows: Vec<Vec<u8>> = case["rows"].as_array().ok_or("rows")?.iter().map(|r| r.as_str().unwrap().as_bytes().to_vec()).collect();
        let t = table_of(&rows);
        let t = if case["k"].as_u64() == Some(33) { wide(&t) } else { t };
        return Ok(cli_one(&t, &spec_from(&case["spec"])).err());
    }
    let rows: Vec<Vec<u8>> = case["rows"].as_array().ok_or("rows")?.iter().map(|r| r.as_str().unwrap().as_bytes().to_vec()).collect();
    let mut t = table_of(&rows);
    if let (Some(keys), Some(tk)) = (case["keys"].as_array(), case["tk"].as_u64()) {
        if keys.len() == rows.len() {
            t.k = tk as usize;
            t.rows = keys.iter().zip(rows.iter()).map(|(k, r)| (k.as_str().unwrap_or("").to_string(), r.clone())).collect();
        }
    }
    Ok(check_one(&t, &spec_from(&case["spec"]), case["update"].as_bool().unwrap_or(true)).err())
}

/// through the CLI: forged .skf, `ska align` with the flags spelled as a user would
fn cli_one(t: &Table, f: &FilterSpec) -> Result<(), String> {
    let dir = scratch::path("c06cli");
    std::fs::create_dir_all(&dir).unwrap();
    FileState::fresh(t.clone()).write(&format!("{dir}/in.skf"));
    let freq = format!("{}", freq_for_threshold(f.thr, t.names.len()));
    let mut args = vec!["align", "in.skf", "--min-freq", &freq, "--filter", f.filt.cli()];
    if f.ambig_missing {
        args.push("--filter-ambig-as-missing");
    }
    if f.mask {
        args.push("--ambig-mask");
    }
    if f.nogap {
        args.push("--no-gap-only-sites");
    }
    let o = cli::run(&args, &dir, None);
    if o.code != 0 {
        return Err(format!("ska align exited with {}", o.code));
    }
    let (names, seqs) = real::parse_fasta(&o.stdout);
    let want = t.filter(f).columns();
    if names != t.names {
        return Err(format!("names {names:?}"));
    }
    let cols = real::columns_of(&seqs)?;
    if cols != want {
        return Err(format!("ska align prints [{}], expected [{}]", cols_str(&cols), cols_str(&want)));
    }
    Ok(())
}

pub fn representative_rows() -> Vec<Vec<u8>> {
    let mut v: Vec<Vec<u8>> = Vec::new();
    for s in [
        "AAA", "AAC", "ACG", "A--", "-A-", "--A", "AA-", "AC-", "A-C", "-AC", "RRR", "RAA", "R--", "-R-", "RA-", "NNN", "NA-", "N--", "ANC", "SSW", "KA-", "MAC", "YYC", "B--", "-D-", "HAA", "VAC", "AAR", "ACN", "-CN", "TTT", "GGC", "T-G", "WS-", "KM-", "AYA", "CCC", "-N-", "NR-", "ARN",
    ] {
        v.push(s.as_bytes().to_vec());
    }
    v
}

pub fn run(ctx: &Ctx, rep: &mut Report) {
    let thorough = ctx.tier.thorough();
    let mut idx = 0u64;
    let mut capped = false;
    // (a) one-row tables
    for n in 1..=5usize {
        let alpha: &[u8] = if n <= 3 || (thorough && n == 4) { SYMS16 } else if thorough { b"ACG-NRSW" } else { b"AC-NRS" };
        let specs = all_specs(n);
        strings(alpha, n, |row| {
            if row.iter().all(|b| *b == b'-') {
                return true;
            }
            idx += 1;
            if ctx.mine(idx) {
                let t = table_of(&[row.to_vec()]);
                run_table(rep, &t, &specs, true);
                if row.iter().all(|b| *b == b'-' || is_ambig(*b)) {
                    rep.corner("row_only_ambiguous_or_gap");
                }
            }
            if idx % 256 == 0 && ctx.expired() {
                capped = true;
                return false;
            }
            true
        });
        if capped {
            break;
        }
        rep.completed.push(format!("(a) all rows for {n} samples"));
    }
    // (b) pairs and triples
    if !capped {
        let reps = representative_rows();
        let specs = all_specs(3);
        'b: for a in &reps {
            for b in &reps {
                idx += 1;
                if !ctx.mine(idx) {
                    continue;
                }
                let t = table_of(&[a.clone(), b.clone()]);
                run_table(rep, &t, &specs, true);
                rep.corner("row_pairs");
                if ctx.expired() {
                    capped = true;
                    break 'b;
                }
            }
        }
        if !capped {
            rep.completed.push("(b) ordered pairs of 40 representative rows".into());
            let m = if thorough { 40 } else { 12 };
            // spread the picks over the representative list
            let small: Vec<Vec<u8>> = (0..m).map(|i| reps[(i * 7) % reps.len()].clone()).collect();
            't: for a in &small {
                for b in &small {
                    for c in &small {
                        idx += 1;
                        if !ctx.mine(idx) {
                            continue;
                        }
                        let t = table_of(&[a.clone(), b.clone(), c.clone()]);
                        run_table(rep, &t, &specs, true);
                        rep.corner("row_triples");
                        if ctx.expired() {
                            capped = true;
                            break 't;
                        }
                    }
                }
            }
            if !capped {
                rep.completed.push(format!("(b) ordered triples of {m} representative rows"));
            }
        }
    }
    // (c) many samples
    if !capped {
        'c: for n in 6..=12usize {
            let specs = all_specs(n);
            for x in SYMS16 {
                for y in SYMS16 {
                    for j in 0..=n {
                        if (j == n && *x == b'-') || (j == 0 && *y == b'-') || (*x == b'-' && *y == b'-') {
                            continue;
                        }
                        idx += 1;
                        if !ctx.mine(idx) {
                            continue;
                        }
                        let row: Vec<u8> = (0..n).map(|i| if i < j { *x } else { *y }).collect();
                        let second: Vec<u8> = (0..n).map(|i| if i % 2 == 0 { b'A' } else { b'-' }).collect();
                        let t = table_of(&[row, second]);
                        if thorough || (j + n) % 2 == 0 {
                            run_table(rep, &t, &specs, false);
                        }
                        rep.corner("many_samples");
                    }
                }
                if ctx.expired() {
                    capped = true;
                    break 'c;
                }
            }
            rep.completed.push(format!("(c) {n} samples"));
        }
    }
    // (c2) rows that are rich in symbols: m distinct non-base symbols (a rotation of the eleven ambiguity codes and the
    // gap) followed by bases in four patterns, and the mirrored row, for 7..12 samples
    if !capped {
        let amb: &[u8; 12] = b"RYSWKMBDHVN-";
        'c2: for n in 7..=12usize {
            let specs = all_specs(n);
            for r in 0..12usize {
                for m in 0..n {
                    for pat in 0..4usize {
                        for mirror in [false, true] {
                            idx += 1;
                            if !ctx.mine(idx) {
                                continue;
                            }
                            if !thorough && (r + m + pat + mirror as usize) % 2 == 1 {
                                continue;
                            }
                            let rest = n - m;
                            let mut row: Vec<u8> = (0..m).map(|i| amb[(r + i) % 12]).collect();
                            row.extend((0..rest).map(|i| match pat {
                                0 => b'A',
                                1 => b"AC"[i % 2],
                                2 => if i == 0 { b'A' } else { b'C' },
                                _ => if i + 1 == rest { b'G' } else { b'T' },
                            }));
                            if mirror {
                                row.reverse();
                            }
                            if row.iter().all(|b| *b == b'-') {
                                continue;
                            }
                            let second: Vec<u8> = (0..n).map(|i| if i % 3 == 0 { b'-' } else { b'C' }).collect();
                            let t = table_of(&[row, second]);
                            run_table(rep, &t, &specs, false);
                            rep.corner("symbol_rich_rows");
                        }
                    }
                }
                if ctx.expired() {
                    capped = true;
                    break 'c2;
                }
            }
            rep.completed.push(format!("(c2) symbol-rich rows, {n} samples"));
        }
    }
    // sizes around powers of two: every row count 1..200 (three samples, cycling patterns) and sample counts around 32,
    // 64, 128 (five rows), each under a handful of filter specifications
    if !capped {
        let specs: Vec<FilterSpec> = all_specs(3).into_iter().filter(|f| f.thr <= 2 && !(f.mask && f.nogap)).step_by(5).collect();
        let patterns: [&[u8; 3]; 8] = [b"ACA", b"AAA", b"A-C", b"-AC", b"RAG", b"GG-", b"NNA", b"C--"];
        for nrows in 1..=(if thorough { 600usize } else { 200 }) {
            idx += 1;
            if !ctx.mine(idx) {
                continue;
            }
            let mut rows = BTreeMap::new();
            for i in 0..nrows {
                rows.insert(String::from_utf8(nth_string(b"ACGT", 6, (i as u64 * 911) % 4096)).unwrap(), patterns[(i * 3 + i / 8) % 8].to_vec());
            }
            let t = Table { k: 7, rc: true, names: crate::samples::odd_names(3), rows };
            for f in specs.iter().skip(nrows % 3).step_by(3) {
                rep.evaluations += 1;
                rep.nontrivial += 1;
                if let Err(e) = check_one(&t, f, nrows % 2 == 0) {
                    rep.violate(format!("row count {nrows} spec={}", spec_json(f)), format!("{nrows} rows: {e}"), json!({"nrows": nrows, "spec": spec_json(f)}));
                }
            }
            if nrows % 64 == 0 {
                rep.corner("row_count_multiple_of_64");
            }
        }
        for n in [31usize, 32, 33, 63, 64, 65, 127, 128, 129] {
            idx += 1;
            if !ctx.mine(idx) {
                continue;
            }
            let rowf = |f: &dyn Fn(usize) -> u8| -> Vec<u8> { (0..n).map(f).collect() };
            let rows = vec![
                rowf(&|i| b"ACG-"[i % 4]),
                rowf(&|i| if i % 2 == 0 { b'A' } else { b'R' }),
                rowf(&|i| if i == n - 1 { b'T' } else { b'G' }),
                rowf(&|i| if i >= n / 2 { b'-' } else { b'A' }),
                rowf(&|i| if i == 0 || i == n - 1 { b'C' } else { b'-' }),
            ];
            let t = table_of(&rows);
            for f in all_specs(n).into_iter().filter(|f| [0, 1, 2, n / 2, n - 1, n].contains(&f.thr)).step_by(7) {
                rep.evaluations += 1;
                rep.nontrivial += 1;
                rep.corner("sample_counts_around_powers_of_two");
                if let Err(e) = check_one(&t, &f, true) {
                    rep.violate(format!("{n} samples spec={}", spec_json(&f)), format!("{n} samples: {e}"), json!({"samples": n, "spec": spec_json(&f)}));
                }
            }
        }
        rep.completed.push("sizes around powers of two".into());
    }
    // CLI family
    if !capped {
        let rows: Vec<Vec<u8>> = ["AAC", "A--", "RA-", "K--", "NNC", "ACG", "AAA", "-N-"].iter().map(|s| s.as_bytes().to_vec()).collect();
        let t = table_of(&rows);
        // the same rows under 32-letter keys: a k=33 file, read through the 128-bit arm of the command
        let t128 = wide(&t);
        for f in all_specs(3) {
            idx += 1;
            if !ctx.mine(idx) {
                continue;
            }
            if !thorough && f.thr == 2 {
                continue;
            }
            for (width, tab) in [(64, &t), (128, &t128)] {
                rep.evaluations += 1;
                rep.nontrivial += 1;
                rep.corner("cli_align");
                if let Err(e) = cli_one(tab, &f) {
                    rep.violate(format!("cli {width}-bit rows={} spec={}", rows_json(tab), spec_json(&f)), format!("{width}-bit file: {e}"), json!({"cli": true, "k": tab.k, "rows": rows_json(tab), "spec": spec_json(&f)}));
                }
            }
        }
        // decimal thresholds whose product with the sample count is a whole number: 10 samples x 0.1 .. 0.9 and 20
        // samples x 0.05 .. 0.95, row c present in exactly c samples; `ska align` (rounds up) and `ska weed` (rounds
        // down) must both keep exactly the rows with c >= n x f
        for n in [10usize, 20] {
            idx += 1;
            if !ctx.mine(idx) {
                continue;
            }
            let mut rows = BTreeMap::new();
            for c in 1..=n {
                let row: Vec<u8> = (0..n).map(|i| if i < c { if i % 2 == 0 { b'A' } else { b'C' } } else { b'-' }).collect();
                rows.insert(String::from_utf8(nth_string(b"ACGT", 4, (c as u64 * 37 + 11) % 256)).unwrap(), row);
            }
            let t = Table { k: 5, rc: true, names: crate::samples::odd_names(n), rows };
            let dir = scratch::path("c06dec");
            std::fs::create_dir_all(&dir).unwrap();
            FileState::fresh(t.clone()).write(&format!("{dir}/in.skf"));
            for j in 1..n {
                let f = if n == 10 { format!("0.{j}") } else { format!("{:.2}", j as f64 * 0.05) };
                let f = f.trim_end_matches('0').to_string();
                let want: usize = (j..=n).count();
                rep.evaluations += 2;
                rep.nontrivial += 2;
                rep.corner("decimal_threshold_with_whole_product");
                let o = cli::run(&["align", "in.skf", "--min-freq", &f, "--filter", "no-filter"], &dir, None);
                let (_, seqs) = real::parse_fasta(&o.stdout);
                let got = seqs.first().map_or(0, |s| s.len());
                if o.code != 0 || got != want {
                    rep.violate(format!("decimal threshold align n={n} f={f}"), format!("ska align --min-freq {f} on {n} samples keeps {got} of the rows present in 1..{n} samples; {n} x {f} = {j}, so the {want} rows present in at least {j} samples pass"), json!({"cli": true, "decimal": f, "n": n, "cmd": "align"}));
                }
                let _ = std::fs::remove_file(format!("{dir}/w.skf"));
                let o = cli::run(&["weed", "in.skf", "--min-freq", &f, "--filter", "no-filter", "-o", "w.skf"], &dir, None);
                let got = FileState::read(&format!("{dir}/w.skf")).map(|s| s.table.rows.len());
                if o.code != 0 || got != Ok(want) {
                    rep.violate(format!("decimal threshold weed n={n} f={f}"), format!("ska weed --min-freq {f} on {n} samples keeps {got:?} rows; {n} x {f} = {j}, so the {want} rows present in at least {j} samples stay"), json!({"cli": true, "decimal": f, "n": n, "cmd": "weed"}));
                }
            }
        }
        rep.completed.push("CLI ska align".into());
    }
    rep.sample(json!({"rows":["RA-","K--"],"spec":{"thr":0,"filter":"no-filter","ambig_missing":true,"mask":false,"nogap":false},"expected_columns":["RA-"]}));
    rep.capped = capped;
}
