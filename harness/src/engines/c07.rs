//! C07 — merging .skf files equals building all their samples together.
//! Explicit-state search: states are .skf contents (hidden fields included); actions are the
//! real `generic_modes::merge` on any ordered selection of 2..4 pool files with disjoint samples.

use serde_json::{json, Value};
use std::collections::{BTreeMap, BTreeSet, HashMap};

use crate::cli;
use crate::explore::{hash64, Ctx, Meta, Report};
use crate::mirror::FileState;
use crate::ops;
use crate::refmodel::*;
use crate::samples;
use crate::scratch;

pub fn meta() -> Meta {
    Meta {
        id: "C07",
        level: "model_checking",
        rule: "explicit-state search over pools of .skf files: level 0 = every ordered list of distinct samples (all subsets, all orders) built with the real build; each further level merges every ordered selection of 2..4 known files with disjoint sample sets through the real generic_modes::merge (the function `ska merge` calls); a file's state is its full content incl. hidden fields and states are de-duplicated, so the search closes when merged files are indistinguishable from built ones and keeps expanding otherwise (nested merges). Invariant in every state: table and name order equal the model's joint table and the real joint build of the same samples in that order. k in {7,31,33,63} x strand modes; n<=5 quick; thorough adds n=5 at both widths and n=6 with pairwise merges (chains and trees arise over the levels). Refusals (different k incl. 31 vs 33, different strand mode, both orders, the incompatible file in second or third position) through the CLI: non-zero exit and no output file. Selected merge trees are re-executed through `ska merge`, files whose samples share a name (same base name in different directories, the same file twice) are merged through the CLI and compared with the joint build, merges whose output file is one of the inputs (first, last, with ./ and suffix) must still hold all inputs in argument order, and `ska align`, `ska distance` and `ska map` of the merged file are compared with `ska align` of the jointly built file.".into(),
        assumptions: vec!["sorted-row canonical form: merge treats rows independently".into()],
        exhaustive_when_uncapped: true, // the declared bounded space (all selections / the whole lattice / all histories up to the depth bound / all interleavings and configurations) is enumerated completely unless capped
    }
}

struct Cfg {
    max_sel: usize,
    k: usize,
    rc: bool,
    n: usize,
    pool: Vec<Vec<Vec<u8>>>,
    paths: Vec<String>,
}

fn ordered_lists(n: usize) -> Vec<Vec<usize>> {
    // all non-empty ordered lists of distinct elements of 0..n
    fn rec(cur: &mut Vec<usize>, n: usize, out: &mut Vec<Vec<usize>>) {
        if !cur.is_empty() {
            out.push(cur.clone());
        }
        for i in 0..n {
            if !cur.contains(&i) {
                cur.push(i);
                rec(cur, n, out);
                cur.pop();
            }
        }
    }
    let mut out = Vec::new();
    rec(&mut Vec::new(), n, &mut out);
    out
}

fn model_table(c: &Cfg, list: &[usize]) -> Table {
    let names: Vec<String> = list.iter().map(|i| format!("s{i}")).collect();
    let smp: Vec<Vec<Vec<u8>>> = list.iter().map(|i| c.pool[*i].clone()).collect();
    Table::from_samples(c.k, c.rc, &names, &smp)
}

fn explore_cfg(c: &Cfg, ctx: &Ctx, rep: &mut Report, idx: &mut u64, max_level: usize) {
    let label = format!("k={} rc={} n={}", c.k, c.rc, c.n);
    // known: state hash -> (state, sample list, file path, level, derivation)
    let mut known: HashMap<u64, (FileState, Vec<usize>, String, String)> = HashMap::new();
    let mut by_level: Vec<Vec<u64>> = vec![Vec::new()];
    let mut fileno = 0usize;
    for list in ordered_lists(c.n) {
        let names: Vec<String> = list.iter().map(|i| format!("s{i}")).collect();
        let paths: Vec<String> = list.iter().map(|i| c.paths[*i].clone()).collect();
        fileno += 1;
        let out = scratch::path(&format!("c07_{fileno}.skf"));
        rep.evaluations += 1;
        if let Err(e) = ops::op_build(&names, &paths, c.k, c.rc, &out) {
            rep.machinery(format!("C07 {label}: joint build of {list:?} failed: {e}"));
            continue;
        }
        let st = match FileState::read(&out) {
            Ok(s) => s,
            Err(e) => {
                rep.machinery(format!("C07 {label}: cannot read built file: {e}"));
                continue;
            }
        };
        if st.table != model_table(c, &list) {
            // build itself disagrees with the model: C01's business, but a merge check on top would be meaningless
            rep.violate(format!("{label} build {list:?}"), "joint build differs from the model table".into(), json!({"label": label, "build": list}));
            continue;
        }
        let h = hash64(&st);
        rep.outcomes.insert(h);
        known.insert(h, (st, list.clone(), out, format!("build{list:?}")));
        by_level[0].push(h);
    }
    let built: BTreeMap<Vec<usize>, u64> = known.iter().map(|(h, v)| (v.1.clone(), *h)).collect();
    for level in 1..=max_level {
        let mut new_level: Vec<u64> = Vec::new();
        let all: Vec<u64> = by_level.iter().flatten().copied().collect();
        let newest: BTreeSet<u64> = by_level[level - 1].iter().copied().collect();
        // ordered selections of 2..4 files with disjoint samples, at least one from the newest level
        let mut sel: Vec<usize> = Vec::new();
        let mut stack: Vec<(Vec<usize>, BTreeSet<usize>)> = vec![(vec![], BTreeSet::new())];
        let mut selections: Vec<Vec<usize>> = Vec::new();
        while let Some((cur, used)) = stack.pop() {
            if cur.len() >= 2 && cur.iter().any(|i| newest.contains(&all[*i])) {
                selections.push(cur.clone());
            }
            if cur.len() == c.max_sel {
                continue;
            }
            for (i, h) in all.iter().enumerate() {
                let samples = &known[h].1;
                if samples.iter().any(|s| used.contains(s)) {
                    continue;
                }
                let mut u = used.clone();
                u.extend(samples.iter().copied());
                let mut c2 = cur.clone();
                c2.push(i);
                stack.push((c2, u));
            }
        }
        let _ = &mut sel;
        for s in selections {
            *idx += 1;
            if !ctx.mine(*idx) {
                continue;
            }
            if rep.evaluations % 64 == 0 && ctx.expired() {
                rep.capped = true;
                return;
            }
            let files: Vec<String> = s.iter().map(|i| known[&all[*i]].2.clone()).collect();
            let list: Vec<usize> = s.iter().flat_map(|i| known[&all[*i]].1.clone()).collect();
            let deriv = format!("merge({})", s.iter().map(|i| known[&all[*i]].3.clone()).collect::<Vec<_>>().join(", "));
            fileno += 1;
            let out = scratch::path(&format!("c07_{fileno}.skf"));
            rep.evaluations += 1;
            rep.nontrivial += 1;
            rep.transitions += 1;
            let want = model_table(c, &list);
            let res = ops::op_merge(&files, &out).and_then(|_| FileState::read(&out));
            match res {
                Err(e) => {
                    rep.violate(format!("{label} {deriv}"), format!("merge failed: {}", e.chars().take(200).collect::<String>()), json!({"label": label, "derivation": deriv}));
                    let _ = std::fs::remove_file(&out);
                }
                Ok(st) => {
                    let mut bad = None;
                    if st.table.names != want.names {
                        bad = Some(format!("sample order {:?}, expected {:?}", st.table.names, want.names));
                    } else if st.table != want {
                        let diff: Vec<String> = want.rows.iter().filter(|(k, v)| st.table.rows.get(*k) != Some(*v)).take(3).map(|(k, v)| format!("{k}: want {} got {:?}", String::from_utf8_lossy(v), st.table.rows.get(k).map(|x| String::from_utf8_lossy(x).to_string()))).collect();
                        bad = Some(format!("merged table differs from the joint build ({} vs {} rows): {:?}", st.table.rows.len(), want.rows.len(), diff));
                    } else if let Some(bh) = built.get(&list) {
                        // differential: same samples built directly
                        if known[bh].0.table != st.table {
                            bad = Some("merged table differs from the real joint build".into());
                        }
                    }
                    if let Some(b) = bad {
                        rep.violate(format!("{label} {deriv}"), b, json!({"label": label, "derivation": deriv}));
                        let _ = std::fs::remove_file(&out);
                        continue;
                    }
                    let h = hash64(&st);
                    if known.contains_key(&h) {
                        let _ = std::fs::remove_file(&out);
                    } else {
                        rep.outcomes.insert(h);
                        rep.corner("merged_file_distinguishable_from_built_file_by_hidden_fields");
                        known.insert(h, (st, list, out, deriv));
                        new_level.push(h);
                    }
                }
            }
        }
        if new_level.is_empty() {
            rep.corner("search_closed");
            break;
        }
        by_level.push(new_level);
    }
    // conformance: a few nested merge trees through the CLI
    let dir = scratch::path("c07cli");
    let _ = std::fs::create_dir_all(&dir);
    if c.n >= 3 && ctx.mine(*idx + c.k as u64) {
        let a = &known[&built[&vec![0usize]]].2;
        let b = &known[&built[&vec![2usize, 1]]].2;
        let want = model_table(c, &[0, 2, 1]);
        // the merge command line in each of the four argument layouts (options first / between the inputs / last)
        for layout in 0..4usize {
            rep.evaluations += 1;
            let _ = std::fs::remove_file(format!("{dir}/abl.skf"));
            cli::set_layout(layout);
            let o = cli::run(&["merge", a, b, "-o", "abl"], &dir, None);
            cli::set_layout(cli::AUTO_LAYOUT);
            let got = FileState::read(&format!("{dir}/abl.skf"));
            if o.code != 0 || got.as_ref().map(|g| &g.table) != Ok(&want) {
                rep.violate(format!("{label} cli merge layout {layout}"), format!("ska merge of [s0] and [s2,s1] with the arguments in layout {layout} ({:?}): exit {}, {}", cli::rearranged(&["merge", "a.skf", "b.skf", "-o", "out"], layout), o.code, if got.is_ok() { "table differs from the joint table" } else { "no readable output" }), json!({"label": label, "cli": "merge s0 + [s2,s1]", "layout": layout}));
            }
            rep.corner("merge_argument_layouts");
        }
        let o = cli::run(&["merge", a, b, "-o", "ab"], &dir, None);
        let got = FileState::read(&format!("{dir}/ab.skf"));
        if o.code != 0 || got.as_ref().map(|g| &g.table) != Ok(&want) {
            rep.violate(format!("{label} cli merge"), "ska merge of [s0] and [s2,s1] differs from the joint table".into(), json!({"label": label, "cli": "merge s0 + [s2,s1]"}));
        } else {
            rep.traces_validated += 1;
            // "equals building them together" also for what is computed from the file next: the complete-column
            // alignment of the merged file and of the jointly built file are the same text
            if let Some(jb) = built.get(&vec![0usize, 2, 1]) {
                let joint = known[jb].2.clone();
                for flags in [vec!["--min-freq", "1", "--filter", "no-filter"], vec!["--min-freq", "0.5", "--filter", "no-const"]] {
                    let mut a1 = vec!["align", "ab.skf"];
                    a1.extend(flags.iter());
                    let mut a2 = vec!["align", joint.as_str()];
                    a2.extend(flags.iter());
                    let (o1, o2) = (cli::run(&a1, &dir, None), cli::run(&a2, &dir, None));
                    rep.evaluations += 1;
                    rep.corner("align_of_merged_vs_jointly_built");
                    let cols = |o: &cli::CliOut| -> Vec<Vec<u8>> {
                        let (_, seqs) = crate::real::parse_fasta(&o.stdout);
                        let mut c = crate::real::columns_of(&seqs).unwrap_or_default();
                        c.sort();
                        c
                    };
                    if flags[1] == "1" {
                        // and `ska distance`, `ska map` of the two files print the same text
                        for cmd in [vec!["distance"], vec!["map", "c07ref.fa"]] {
                            if cmd[0] == "map" {
                                std::fs::write(format!("{dir}/c07ref.fa"), scratch::fasta(&c.pool[0])).unwrap();
                            }
                            let mut b1 = cmd.clone();
                            b1.push("ab.skf");
                            let mut b2 = cmd.clone();
                            b2.push(joint.as_str());
                            let (p1, p2) = (cli::run(&b1, &dir, None), cli::run(&b2, &dir, None));
                            rep.evaluations += 1;
                            if p1.code != p2.code || p1.stdout != p2.stdout {
                                rep.violate(format!("{label} cli merge then {}", cmd[0]), format!("ska {} prints different text for the merged file (exit {}) and the jointly built file (exit {})", cmd[0], p1.code, p2.code), json!({"label": label, "cli": format!("merge s0 + [s2,s1] then {}", cmd[0])}));
                            }
                        }
                    }
                    if o1.code != o2.code || cols(&o1) != cols(&o2) {
                        rep.violate(format!("{label} cli merge then align {flags:?}"), format!("ska align {flags:?} gives {} columns on the merged file and {} on the jointly built file", cols(&o1).len(), cols(&o2).len()), json!({"label": label, "cli": "merge s0 + [s2,s1] then align"}));
                    }
                }
            }
        }
        if c.n >= 4 {
            let d = &known[&built[&vec![3usize]]].2;
            let o = cli::run(&["merge", d, "ab.skf", "-o", "dab.skf"], &dir, None);
            let want = model_table(c, &[3, 0, 2, 1]);
            let got = FileState::read(&format!("{dir}/dab.skf"));
            if o.code != 0 || got.as_ref().map(|g| &g.table) != Ok(&want) {
                rep.violate(format!("{label} cli nested merge"), "nested ska merge differs from the joint table".into(), json!({"label": label, "cli": "merge s3 + merge(s0,[s2,s1])"}));
            } else {
                rep.traces_validated += 1;
            }
        }
    }
    rep.sample(json!({"config": label, "files_known": known.len(), "example_derivation": known.values().map(|v| v.3.clone()).max_by_key(|d| d.len())}));
    for v in known.values() {
        let _ = std::fs::remove_file(&v.2);
    }
}

fn refusals_third(ctx: &Ctx, rep: &mut Report, idx: &mut u64, files: &[(String, usize, bool)], dir: &str) {
    // the incompatible file in the third position: still refused, still no output
    for a in files {
        for b in files {
            if a.0 == b.0 || (a.1 == b.1 && a.2 == b.2) {
                continue;
            }
            *idx += 1;
            if !ctx.mine(*idx) {
                continue;
            }
            rep.evaluations += 1;
            rep.nontrivial += 1;
            rep.corner("refusal_third_position");
            // a second, compatible file: a renamed copy is not needed, merging a file with a copy of itself is compatible in k/strand
            let _ = std::fs::remove_file(format!("{dir}/out3.skf"));
            let o = cli::run(&["merge", &a.0, &a.0, &b.0, "-o", "out3"], dir, None);
            let exists = std::path::Path::new(&format!("{dir}/out3.skf")).exists();
            if o.code == 0 || exists {
                rep.violate(
                    format!("refusal third k={}/{} rc={}/{}", a.1, b.1, a.2, b.2),
                    format!("merging two k={} rc={} files and then a k={} rc={} file: exit {} and output file {}", a.1, a.2, b.1, b.2, o.code, if exists { "written" } else { "absent" }),
                    json!({"refusal_third": [a.1, a.2, b.1, b.2]}),
                );
            }
        }
    }
}

fn refusals(ctx: &Ctx, rep: &mut Report, idx: &mut u64) {
    let dir = scratch::path("c07ref");
    let _ = std::fs::create_dir_all(&dir);
    let mut files: Vec<(String, usize, bool)> = Vec::new();
    for (k, rc) in [(7usize, true), (7, false), (31, true), (33, true), (33, false), (63, true)] {
        let pool = samples::pool(k, ctx.seed);
        let p = scratch::write(&format!("c07r_{k}.fa"), &scratch::fasta(&pool[0]));
        let out = format!("{dir}/f_{k}_{rc}.skf");
        if ops::op_build(&[format!("x{k}{rc}")], &[p], k, rc, &out).is_ok() {
            files.push((out, k, rc));
        }
    }
    for a in &files {
        for b in &files {
            if a.0 == b.0 || (a.1 == b.1 && a.2 == b.2) {
                continue;
            }
            *idx += 1;
            if !ctx.mine(*idx) {
                continue;
            }
            rep.evaluations += 1;
            rep.nontrivial += 1;
            rep.corner("refusal_pairs");
            let _ = std::fs::remove_file(format!("{dir}/out.skf"));
            let o = cli::run(&["merge", &a.0, &b.0, "-o", "out"], &dir, None);
            let exists = std::path::Path::new(&format!("{dir}/out.skf")).exists();
            if o.code == 0 || exists {
                rep.violate(
                    format!("refusal k={}/{} rc={}/{}", a.1, b.1, a.2, b.2),
                    format!("merging files with k={} rc={} and k={} rc={}: exit {} and output file {}", a.1, a.2, b.1, b.2, o.code, if exists { "written" } else { "absent" }),
                    json!({"refusal": [a.1, a.2, b.1, b.2]}),
                );
            }
        }
    }
    refusals_third(ctx, rep, idx, &files, &dir);
}

/// files whose samples carry the same name (the name is the file's base name, so `asm_1/contigs.fa` and
/// `asm_2/contigs.fa` are both "contigs"): merging equals building them together, nothing is dropped
fn equal_names(ctx: &Ctx, rep: &mut Report, idx: &mut u64) {
    for k in [7usize, 33] {
        *idx += 1;
        if !ctx.mine(*idx) {
            continue;
        }
        let pool = samples::pool(k, ctx.seed);
        let dir = scratch::path(&format!("c07names{k}"));
        let _ = std::fs::create_dir_all(format!("{dir}/d1"));
        let _ = std::fs::create_dir_all(format!("{dir}/d2"));
        std::fs::write(format!("{dir}/d1/contigs.fa"), scratch::fasta(&pool[1])).unwrap();
        std::fs::write(format!("{dir}/d2/contigs.fa"), scratch::fasta(&pool[2])).unwrap();
        std::fs::write(format!("{dir}/other.fa"), scratch::fasta(&pool[3])).unwrap();
        let ks = k.to_string();
        let b: Vec<i32> = [("a", "d1/contigs.fa"), ("b", "d2/contigs.fa"), ("c", "other.fa")].iter().map(|(o, f)| cli::run(&["build", "-k", &ks, "-o", o, f], &dir, None).code).collect();
        let j = cli::run(&["build", "-k", &ks, "-o", "joint", "d1/contigs.fa", "other.fa", "d2/contigs.fa"], &dir, None);
        if b.iter().any(|c| *c != 0) || j.code != 0 {
            rep.machinery(format!("C07 equal names: build failed {b:?} {}", j.code));
            continue;
        }
        let names: Vec<String> = vec!["contigs".into(), "other".into(), "contigs".into()];
        let want = Table::from_samples(k, true, &names, &[pool[1].clone(), pool[3].clone(), pool[2].clone()]);
        let cases: Vec<(&str, Vec<&str>, Table)> = vec![
            ("three files, first and last share the sample name", vec!["merge", "a.skf", "c.skf", "b.skf", "-o", "acb"], want.clone()),
            ("the same file twice", vec!["merge", "a.skf", "a.skf", "-o", "acb"], Table::from_samples(k, true, &["contigs".to_string(), "contigs".to_string()], &[pool[1].clone(), pool[1].clone()])),
            ("two files with the same sample name", vec!["merge", "b.skf", "a.skf", "-o", "acb"], Table::from_samples(k, true, &["contigs".to_string(), "contigs".to_string()], &[pool[2].clone(), pool[1].clone()])),
        ];
        for (what, args, want) in cases {
            rep.evaluations += 1;
            rep.nontrivial += 1;
            rep.corner("cli_merge_equal_sample_names");
            let _ = std::fs::remove_file(format!("{dir}/acb.skf"));
            let o = cli::run(&args, &dir, None);
            let got = FileState::read(&format!("{dir}/acb.skf"));
            if o.code != 0 || got.as_ref().map(|g| &g.table) != Ok(&want) {
                rep.violate(format!("equal names k={k}: {what}"), format!("{what}: ska merge (exit {}) gives names {:?} / {:?} rows; building them together gives {:?} / {} rows", o.code, got.as_ref().map(|g| g.table.names.clone()), got.as_ref().map(|g| g.table.rows.len()), want.names, want.rows.len()), json!({"cli": what, "k": k}));
            }
        }
        let joint = FileState::read(&format!("{dir}/joint.skf"));
        if joint.as_ref().map(|g| &g.table) != Ok(&want) {
            rep.violate(format!("equal names k={k}: joint build"), "building files with equal base names together differs from the model".into(), json!({"cli": "joint build equal names", "k": k}));
        }
    }
}

/// accumulating in place: the output file is one of the inputs (`ska merge -o all all.skf new1.skf new2.skf`)
fn in_place(ctx: &Ctx, rep: &mut Report, idx: &mut u64) {
    for k in [7usize, 33] {
        *idx += 1;
        if !ctx.mine(*idx) {
            continue;
        }
        let pool = samples::pool(k, ctx.seed);
        let dir = scratch::path(&format!("c07inplace{k}"));
        let _ = std::fs::create_dir_all(&dir);
        let ks = k.to_string();
        let names: Vec<String> = (0..4).map(|i| format!("p{i}")).collect();
        for i in 0..4 {
            std::fs::write(format!("{dir}/p{i}.fa"), scratch::fasta(&pool[i])).unwrap();
        }
        let fresh = |dir: &str| -> bool {
            // all = [p0, p1] ; n2 = [p2] ; n3 = [p3]
            cli::run(&["build", "-k", &ks, "-o", "all", "p0.fa", "p1.fa"], dir, None).code == 0
                && cli::run(&["build", "-k", &ks, "-o", "n2", "p2.fa"], dir, None).code == 0
                && cli::run(&["build", "-k", &ks, "-o", "n3", "p3.fa"], dir, None).code == 0
        };
        let cases: Vec<(&str, Vec<&str>, Vec<usize>)> = vec![
            ("output is the first input", vec!["merge", "-o", "all", "all.skf", "n2.skf", "n3.skf"], vec![0, 1, 2, 3]),
            ("output is the last input, given with its suffix and ./", vec!["merge", "-o", "./all.skf", "n2.skf", "n3.skf", "all.skf"], vec![2, 3, 0, 1]),
            ("output is the second of two inputs", vec!["merge", "-o", "n2", "all.skf", "n2.skf"], vec![0, 1, 2]),
        ];
        for (what, args, order) in cases {
            if !fresh(&dir) {
                rep.machinery("C07 in place: build failed".into());
                continue;
            }
            rep.evaluations += 1;
            rep.nontrivial += 1;
            rep.corner("cli_merge_output_is_an_input");
            let o = cli::run(&args, &dir, None);
            let outname = if args[2].contains("n2") { "n2.skf" } else { "all.skf" };
            let got = FileState::read(&format!("{dir}/{outname}"));
            let want = Table::from_samples(k, true, &order.iter().map(|i| names[*i].clone()).collect::<Vec<_>>(), &order.iter().map(|i| pool[*i].clone()).collect::<Vec<_>>());
            if o.code != 0 || got.as_ref().map(|g| &g.table) != Ok(&want) {
                rep.violate(format!("in place k={k}: {what}"), format!("{what}: ska {} (exit {}) leaves names {:?}; all inputs in argument order are {:?}", args.join(" "), o.code, got.as_ref().map(|g| g.table.names.clone()), want.names), json!({"cli": what, "k": k}));
            }
        }
    }
}

pub fn replay(_case: &Value) -> Result<Option<String>, String> {
    Err("C07 cases are derivations inside a search; rerun ./check C07".into())
}

pub fn run(ctx: &Ctx, rep: &mut Report) {
    let thorough = ctx.tier.thorough();
    let mut idx = 0u64;
    let cfgs: Vec<(usize, bool, usize)> = if thorough {
        vec![(7, true, 5), (7, false, 4), (31, true, 5), (33, true, 5), (63, true, 4), (33, false, 3), (9, true, 6)]
    } else {
        vec![(7, true, 5), (31, true, 4), (33, true, 4), (63, false, 3)]
    };
    for (k, rc, n) in cfgs {
        let pool = samples::pool(k, ctx.seed);
        // sample choice: shared / SNP / N-only rows / rc+ambiguity / palindrome / truncated+unique
        // (index 8 holds rows whose only stored symbol is N)
        let pick = [0usize, 1, 8, 3, 5, 6, 2];
        let pool: Vec<Vec<Vec<u8>>> = pick.iter().take(n).map(|i| pool[*i].clone()).collect();
        let paths: Vec<String> = (0..n).map(|i| scratch::write(&format!("c07_s{i}.fa"), &scratch::fasta(&pool[i]))).collect();
        let c = Cfg { max_sel: if n >= 6 { 2 } else { 4 }, k, rc, n, pool, paths };
        explore_cfg(&c, ctx, rep, &mut idx, 3);
        if rep.capped {
            return;
        }
        rep.completed.push(format!("k={k} rc={rc} n={n}"));
    }
    refusals(ctx, rep, &mut idx);
    rep.completed.push("refusals".into());
    equal_names(ctx, rep, &mut idx);
    in_place(ctx, rep, &mut idx);
    rep.completed.push("equal sample names".into());
}
