//! C14 — distances are SNP counts over shared k-mers plus k-mer set mismatch.

use serde_json::{json, Value};
use std::collections::BTreeMap;

use ska::merge_ska_array::MergeSkaArray;

use crate::cli;
use crate::enumerate::{nth_string, permutations, repeat_free};
use crate::explore::{Ctx, Meta, Report};
use crate::mirror::FileState;
use crate::real;
use crate::refmodel::*;
use crate::scratch;

pub fn meta() -> Meta {
    Meta {
        id: "C14",
        level: "exploration",
        rule: "forged unambiguous tables through the real generic_modes::distance (the function behind `ska distance`, threads=1), output lines compared byte for byte with the model's integers rendered with the same formatting: every multiset of <=3 rows over {A,C,G,-}^n (n=2,3; n=4 with <=2 rows in the quick tier, 3 in thorough), x every threshold 0..n x {default, --allow-ambiguous}; every sample permutation for tables of <=2 rows; n=5..12 with 'j copies of x, rest y' rows; planted-SNP genomes end to end through the CLI; tables with 31, 32, 33, 63, 64, 65, 127, 128, 129 samples; three-sample tables of every row count 1..260 (thorough 1..2100); large three-sample tables of 65537 and 131073 rows (thorough: 65535, 65536, 65537, 100000, 131073, 300000) cycling through variable, gapped and constant rows, in-process and through the CLI with 1 and 4 threads. Also asserted directly: identical samples at 0/0, each unordered pair exactly once in input order, proportion in [0,1]. Non-trivial = (table, threshold, flag) triple; distinct outcomes = distinct expected outputs.".into(),
        assumptions: vec!["frequencies (t-1/2)/n so that ceil(f*n)=t robustly; threshold 0 and 1 both mean 'no frequency filter' in the statement (a stored k-mer is in >=1 sample)".into()],
        exhaustive_when_uncapped: true,
    }
}

fn table_of(rows: &[Vec<u8>]) -> Table {
    let n = rows[0].len();
    let mut m = BTreeMap::new();
    for (i, r) in rows.iter().enumerate() {
        m.insert(String::from_utf8(nth_string(b"ACGT", 4, (i as u64 * 53 + 5) % 256)).unwrap(), r.clone());
    }
    Table { k: 5, rc: true, names: crate::samples::odd_names(n), rows: m }
}

pub fn real_distance(t: &Table, min_freq: f64, allow_ambig: bool) -> Result<Vec<String>, String> {
    let mut a: MergeSkaArray<u64> = real::forge_array(t);
    let out = scratch::path("c14.dist");
    real::catch(|| ska::generic_modes::distance(&mut a, &Some(out.clone()), min_freq, !allow_ambig, 1))?;
    let text = std::fs::read_to_string(&out).map_err(|e| format!("{e}"))?;
    let mut lines: Vec<String> = text.lines().map(|s| s.to_string()).collect();
    if lines.is_empty() || lines[0] != "Sample1\tSample2\tDistance\tMismatches" {
        return Err(format!("header {:?}", lines.first()));
    }
    lines.remove(0);
    Ok(lines)
}

pub fn check_one(t: &Table, thr: usize, allow_ambig: bool) -> Result<(), String> {
    let n = t.names.len();
    let want = t.distance_lines(thr);
    let got = real_distance(t, freq_for_threshold(thr, n), allow_ambig)?;
    if got != want {
        let d = got.iter().zip(&want).find(|(a, b)| a != b).map(|(a, b)| format!("got {a:?} want {b:?}")).unwrap_or_else(|| format!("{} lines vs {}", got.len(), want.len()));
        return Err(format!("distance output differs: {d}"));
    }
    for l in &got {
        let f: Vec<&str> = l.split('\t').collect();
        let m: f64 = f[3].parse().map_err(|_| "mismatch not a number")?;
        if !(0.0..=1.0).contains(&m) {
            return Err(format!("mismatch proportion {m} outside [0,1]"));
        }
    }
    Ok(())
}

fn rows_json(t: &Table) -> Value {
    json!(t.rows.values().map(|r| String::from_utf8_lossy(r).to_string()).collect::<Vec<_>>())
}

fn run_table(rep: &mut Report, t: &Table) {
    let n = t.names.len();
    for thr in 0..=n {
        for aa in [false, true] {
            rep.evaluations += 1;
            rep.nontrivial += 1;
            if rep.evaluations % 4 == 0 {
                rep.outcome(&t.distance_lines(thr));
            }
            if let Err(e) = check_one(t, thr, aa) {
                rep.violate(format!("rows={} thr={thr} allow_ambiguous={aa}", rows_json(t)), e, json!({"rows": rows_json(t), "thr": thr, "allow_ambiguous": aa}));
            }
        }
    }
}

pub fn replay(case: &Value) -> Result<Option<String>, String> {
    let rows: Vec<Vec<u8>> = case["rows"].as_array().ok_or("rows")?.iter().map(|r| r.as_str().unwrap().as_bytes().to_vec()).collect();
    Ok(check_one(&table_of(&rows), case["thr"].as_u64().unwrap() as usize, case["allow_ambiguous"].as_bool().unwrap()).err())
}

fn next_multiset(ix: &mut [usize], m: usize) -> bool {
    let size = ix.len();
    let mut i = size;
    while i > 0 {
        i -= 1;
        if ix[i] + 1 < m {
            ix[i] += 1;
            for j in (i + 1)..size {
                ix[j] = ix[i];
            }
            return true;
        }
    }
    false
}

fn all_rows(n: usize) -> Vec<Vec<u8>> {
    let mut v = Vec::new();
    crate::enumerate::strings(b"ACG-", n, |r| {
        if r.iter().any(|b| *b != b'-') {
            v.push(r.to_vec());
        }
        true
    });
    v
}

pub fn run(ctx: &Ctx, rep: &mut Report) {
    std::env::set_var("RAYON_NUM_THREADS", "2");
    let thorough = ctx.tier.thorough();
    let mut idx = 0u64;
    let mut capped = false;
    'outer: for n in 2..=4usize {
        let rows = all_rows(n);
        let maxrows = if n == 4 && !thorough { 2 } else { 3 };
        // multisets of size 1..maxrows (non-decreasing index tuples)
        for size in 1..=maxrows {
            let mut ix = vec![0usize; size];
            loop {
                idx += 1;
                if ctx.mine(idx) {
                    let t = table_of(&ix.iter().map(|i| rows[*i].clone()).collect::<Vec<_>>());
                    run_table(rep, &t);
                    if size <= 2 && n <= 4 && (thorough || idx % 3 == 0) {
                        // sample permutations: distances must follow the samples
                        for p in permutations(n).iter().skip(1) {
                            let pt = Table {
                                k: t.k,
                                rc: t.rc,
                                names: p.iter().map(|i| t.names[*i].clone()).collect(),
                                rows: t.rows.iter().map(|(a, r)| (a.clone(), p.iter().map(|i| r[*i]).collect())).collect(),
                            };
                            rep.evaluations += 1;
                            if let Err(e) = check_one(&pt, n / 2, false) {
                                rep.violate(format!("permuted rows={} perm={p:?}", rows_json(&t)), e, json!({"rows": rows_json(&pt), "thr": n / 2, "allow_ambiguous": false}));
                            }
                        }
                        rep.corner("sample_permutations");
                    }
                    if t.rows.values().any(|r| r.iter().filter(|b| **b != b'-').count() < n) {
                        rep.corner("table_with_missing");
                    }
                }
                if !next_multiset(&mut ix, rows.len()) {
                    break;
                }
                if idx % 256 == 0 && ctx.expired() {
                    capped = true;
                    break 'outer;
                }
            }
            rep.completed.push(format!("n={n} all multisets of {size} rows"));
        }
    }
    // many samples
    if !capped {
        'm: for n in 5..=12usize {
            for x in *b"ACG-" {
                for y in *b"ACG-" {
                    for j in 0..=n {
                        if x == b'-' && y == b'-' || (j == n && x == b'-') || (j == 0 && y == b'-') {
                            continue;
                        }
                        idx += 1;
                        if !ctx.mine(idx) {
                            continue;
                        }
                        let row: Vec<u8> = (0..n).map(|i| if i < j { x } else { y }).collect();
                        let second: Vec<u8> = (0..n).map(|i| if i % 3 == 0 { b'-' } else if i % 3 == 1 { b'A' } else { b'C' }).collect();
                        let third: Vec<u8> = vec![b'G'; n];
                        run_table(rep, &table_of(&[row, second, third]));
                        rep.corner("many_samples");
                    }
                }
            }
            if ctx.expired() {
                capped = true;
                break 'm;
            }
            rep.completed.push(format!("n={n} pattern rows"));
        }
    }
    // end to end through the CLI on planted-SNP genomes
    if !capped {
        for k in [7usize, 31, 33] {
            idx += 1;
            if !ctx.mine(idx) {
                continue;
            }
            let g = repeat_free(6 * k, k, 0, ctx.seed + 14);
            let h = (k - 1) / 2;
            let sites = [h + 1, 2 * k, 4 * k];
            let n = 4;
            let mut samples: Vec<Vec<Vec<u8>>> = Vec::new();
            for i in 0..n {
                let mut s = g.clone();
                for (si, site) in sites.iter().enumerate() {
                    if (i >> si) & 1 == 1 {
                        s[*site] = comp(s[*site]);
                    }
                }
                // sample 3 lacks the end of the genome
                if i == 3 {
                    s.truncate(5 * k);
                }
                samples.push(vec![s]);
            }
            let names: Vec<String> = (0..n).map(|i| format!("g{i}")).collect();
            let t = Table::from_samples(k, true, &names, &samples);
            if t.has_ambig() {
                continue;
            }
            let dir = scratch::path("c14cli");
            std::fs::create_dir_all(&dir).unwrap();
            FileState::fresh(t.clone()).write(&format!("{dir}/in.skf"));
            for thr in 0..=n {
                rep.evaluations += 1;
                rep.nontrivial += 1;
                rep.corner("cli_distance");
                let f = format!("{}", freq_for_threshold(thr, n));
                let o = cli::run(&["distance", "in.skf", "--min-freq", &f], &dir, None);
                let got: Vec<String> = String::from_utf8_lossy(&o.stdout).lines().skip(1).map(|s| s.to_string()).collect();
                if o.code != 0 || got != t.distance_lines(thr) {
                    rep.violate(format!("cli distance k={k} thr={thr}"), format!("ska distance (exit {}) prints {:?}, expected {:?}", o.code, got, t.distance_lines(thr)), json!({"cli":true,"k":k,"thr":thr}));
                }
            }
        }
        rep.completed.push("CLI planted-SNP genomes".into());
    }
    // sample counts around 32, 64 and 128 (anything packed one bit or one column per sample): a few rows, every pair
    if !capped {
        for n in [31usize, 32, 33, 63, 64, 65, 127, 128, 129] {
            idx += 1;
            if !ctx.mine(idx) {
                continue;
            }
            let rowf = |f: &dyn Fn(usize) -> u8| -> Vec<u8> { (0..n).map(f).collect() };
            let rows = vec![
                rowf(&|i| b"ACG-"[i % 4]),
                rowf(&|i| if i % 2 == 0 { b'A' } else { b'C' }),
                rowf(&|i| if i == n - 1 { b'T' } else { b'G' }),
                rowf(&|i| if i >= n / 2 { b'-' } else { b'A' }),
                rowf(&|i| if i == 0 || i == n - 1 { b'C' } else { b'-' }),
            ];
            let t = table_of(&rows);
            for (thr, aa) in [(0usize, false), (n / 2, true), (n, false)] {
                rep.evaluations += 1;
                rep.nontrivial += 1;
                rep.corner("sample_counts_around_powers_of_two");
                if let Err(e) = check_one(&t, thr, aa) {
                    rep.violate(format!("{n} samples thr={thr} aa={aa}"), format!("{n} samples, threshold {thr}, allow-ambiguous={aa}: {e}"), json!({"samples": n, "thr": thr, "aa": aa}));
                }
            }
        }
        rep.completed.push("sample counts around powers of two".into());
    }
    // every number of rows from 1 to 260 (thorough 2100): rows cycle through shared-and-different, shared-and-equal-
    // but-variable (third sample differs), one-sided and gapped patterns, so that row counts at and around 64, 128,
    // 256, ... occur with every kind of last row
    if !capped {
        let patterns: [&[u8; 3]; 6] = [b"ACA", b"AAC", b"A-C", b"-AC", b"CAG", b"GG-"];
        let maxrows = if thorough { 2100usize } else { 260 };
        for nrows in 1..=maxrows {
            idx += 1;
            if !ctx.mine(idx) {
                continue;
            }
            for shift in 0..2usize {
                let mut rows = BTreeMap::new();
                for i in 0..nrows {
                    rows.insert(String::from_utf8(nth_string(b"ACGT", 8, (i as u64 * 911) % 65_536)).unwrap(), patterns[(i + shift * 3) % 6].to_vec());
                }
                let t = Table { k: 9, rc: true, names: crate::samples::odd_names(3), rows };
                for (thr, aa) in [(0usize, false), (2, true)] {
                    rep.evaluations += 1;
                    rep.nontrivial += 1;
                    if let Err(e) = check_one(&t, thr, aa) {
                        rep.violate(format!("row count {nrows} shift={shift} thr={thr} aa={aa}"), format!("{nrows} rows, threshold {thr}, allow-ambiguous={aa}: {e}"), json!({"nrows": nrows, "shift": shift, "thr": thr, "aa": aa}));
                    }
                }
            }
            if nrows % 64 == 0 {
                rep.corner("row_count_multiple_of_64");
            }
        }
        rep.completed.push("every row count".into());
    }
    // large tables (more rows than any plausible work-sharing block: 2^16 and 2^17 rows and their neighbours), three
    // samples, rows cycling through variable, gapped and constant patterns; in-process and, for one size, through the
    // CLI with --threads 1 and 4
    if !capped {
        let patterns: [&[u8; 3]; 10] = [b"AAC", b"AC-", b"A-A", b"ACG", b"-AA", b"CCC", b"AAA", b"A--", b"GGT", b"TTT"];
        let sizes: Vec<usize> = if thorough { vec![65_535, 65_536, 65_537, 100_000, 131_073, 300_000] } else { vec![65_537, 131_073] };
        for size in sizes {
            idx += 1;
            if !ctx.mine(idx) {
                continue;
            }
            let mut rows = BTreeMap::new();
            for i in 0..size {
                rows.insert(String::from_utf8(nth_string(b"ACGT", 12, (i as u64 * 7919) % (1 << 24))).unwrap(), patterns[(i * 7 + i / 10) % 10].to_vec());
            }
            let t = Table { k: 13, rc: true, names: crate::samples::odd_names(3), rows };
            for thr in [0usize, 2] {
                for aa in [false, true] {
                    rep.evaluations += 1;
                    rep.nontrivial += 1;
                    rep.corner("large_table");
                    if let Err(e) = check_one(&t, thr, aa) {
                        rep.violate(format!("large table rows={size} thr={thr} aa={aa}"), format!("{size} rows, threshold {thr}, allow-ambiguous={aa}: {e}"), json!({"large": size, "thr": thr, "aa": aa}));
                    }
                }
            }
            if size == 131_073 {
                let dir = scratch::path("c14big");
                std::fs::create_dir_all(&dir).unwrap();
                FileState::fresh(t.clone()).write(&format!("{dir}/in.skf"));
                for threads in ["1", "4"] {
                    rep.evaluations += 1;
                    let o = cli::run(&["distance", "in.skf", "--threads", threads], &dir, None);
                    let got: Vec<String> = String::from_utf8_lossy(&o.stdout).lines().skip(1).map(|s| s.to_string()).collect();
                    if o.code != 0 || got != t.distance_lines(0) {
                        rep.violate(format!("cli large table threads={threads}"), format!("ska distance --threads {threads} on {size} rows (exit {}) prints {:?}, expected {:?}", o.code, got, t.distance_lines(0)), json!({"cli": true, "large": size, "threads": threads}));
                    }
                }
            }
        }
        rep.completed.push("large tables".into());
    }
    rep.sample(json!({"rows":["AAC","A-C","GGG"],"thr":2,"expected":table_of(&[b"AAC".to_vec(), b"A-C".to_vec(), b"GGG".to_vec()]).distance_lines(2)}));
    rep.capped = capped;
}
