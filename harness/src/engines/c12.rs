//! C12 — read filtering keeps exactly the k-mers seen min-count times at passing quality.

use serde_json::{json, Value};

use crate::cli;
use crate::enumerate::repeat_free;
use crate::explore::{Ctx, Meta, Report};
use crate::real;
use crate::refmodel::*;
use crate::scratch;

pub fn meta() -> Meta {
    Meta {
        id: "C12",
        level: "exploration",
        rule: "paired FASTQ read sets through the real SkaDict::new (in-process) against a brute-force count model: genome g of k+2 letters and a variant g' differing in the middle base of the central window, k in {5,9,31,33} (thorough: + 7, 63), both strand modes. Family A (counts): min-count c=1..6 x every multiplicity pair (a,a') in {0,c-1,c,c+1}^2 for the two central k-mers x every split of each multiplicity between file 1 (forward) and file 2 (reverse complement). Family B (quality): c in 1..3, three quality rules x min-qual in {0,1,20,40} x one designated low-quality base (middle, middle-1, first, last of a k-long read; positions 0, h, h+1, k+1 of a (k+2)-long read) with quality in {Q-1,Q,Q+1} on exactly one of the c copies. Family C: N at every position of the (k+2)-long read, and of a read of 2k+4 letters (k or more valid bases behind the N; also a low-quality base there under the strict rule, and an N with a low-quality middle base in the window before or behind it under the middle rule). Family D: the same through `ska build -f` option parsing (one of the two files with CRLF line ends in two of the four configurations), and a single FASTQ file given as positional argument or as a two-field list line. Family P (k in {5,7,31,33}; thorough + 9, 15, 63): reads holding a k-mer whose arms are reverse complements of each other (X m rc(X), each m; also homopolymer arms A^h m A^h, A^h m T^h, G^h m G^h; bare, with flanks), c=1..3, totals c-1/c/c+1 split between the strands and the files in every way. Family M: several read samples in one `ska build` (a sample seeing a read c times, one seeing it c-1 times plus another read c times, a third), every column must equal the sample built alone, both sample orders. Family E (k in {5,33}; thorough + 7, 31, 63): every multiset of up to three reads drawn from all substrings of length k..k+3, both orientations, of a (k+3)-letter genome and of its one-substitution variant (quick: triples from the genome only), all in file 1 or alternating between the files, c=1..3 (the same k-mer met as first window of one read and as rolled window of another, on either strand); and every pair of such reads with one base of quality Q-1 or Q at every position of the first (k<=7; ends and window middles otherwise; quick: k=5 only), middle and strict rule, c=1..2. One larger data set (~2*10^4 distinct k-mers plus singleton error k-mers) bounds the share of below-threshold k-mers that enter; a 400 kb genome given three times as reads at min-count 3 must give exactly the FASTA builder's dictionary of the genome (4*10^5 distinct k-mers, none lost), and the same genome twice plus a copy with a substitution every 40 bases at min-count 2 (3*10^5 k-mers seen once: fewer than 0.1% may enter). Non-trivial = the model's dictionary is non-empty or a k-mer sits exactly at a threshold. Every sixth case of every family is repeated with soft-masked reads (every second read has every third base in lower case) and every sixth with all passing qualities raised to 64..93 (characters a..~): same dictionary.".into(),
        assumptions: vec!["an extra entry would only be acceptable as a counting-filter collision; on these inputs none is expected and any extra is reported".into(), "a sample in which nothing reaches the threshold may be refused".into()],
        exhaustive_when_uncapped: true,
    }
}

type Read = (Vec<u8>, Vec<u8>);

fn fastq(reads: &[Read]) -> Vec<u8> {
    let mut out = Vec::new();
    for (i, (s, q)) in reads.iter().enumerate() {
        out.extend_from_slice(format!("@r{i}\n").as_bytes());
        out.extend_from_slice(s);
        out.extend_from_slice(b"\n+\n");
        out.extend(q.iter().map(|x| x + 33));
        out.push(b'\n');
    }
    if reads.is_empty() {
        // needletail needs at least one record to recognise the format: a read too short to hold a k-mer
        out.extend_from_slice(b"@empty\nA\n+\nI\n");
    }
    out
}

fn rc_read(r: &Read) -> Read {
    (rc_str_n(&r.0), r.1.iter().rev().copied().collect())
}

fn rule_name(r: QRule) -> &'static str {
    match r {
        QRule::None => "no-filter",
        QRule::Middle => "middle",
        QRule::Strict => "strict",
    }
}

fn rule_of(s: &str) -> QRule {
    match s {
        "middle" => QRule::Middle,
        "strict" => QRule::Strict,
        _ => QRule::None,
    }
}

struct Case<'a> {
    k: usize,
    rc: bool,
    c: usize,
    q: u8,
    rule: QRule,
    files: &'a [Vec<Read>; 2],
}

fn case_json(c: &Case) -> Value {
    let f = |v: &Vec<Read>| v.iter().map(|(s, q)| json!([String::from_utf8_lossy(s), q])).collect::<Vec<_>>();
    json!({"k": c.k, "rc": c.rc, "min_count": c.c, "min_qual": c.q, "rule": rule_name(c.rule), "file1": f(&c.files[0]), "file2": f(&c.files[1])})
}

fn check(c: &Case) -> Result<bool, String> {
    let want = read_filter_model(&[c.files[0].clone(), c.files[1].clone()], c.k, c.rc, c.c, c.q, c.rule);
    let p1 = scratch::write("c12_1.fastq", &fastq(&c.files[0]));
    let p2 = scratch::write("c12_2.fastq", &fastq(&c.files[1]));
    let got = if c.k <= 31 {
        real::build_dict_reads::<u64>(&p1, &p2, c.k, c.rc, c.c as u16, c.q, c.rule)
    } else {
        real::build_dict_reads::<u128>(&p1, &p2, c.k, c.rc, c.c as u16, c.q, c.rule)
    };
    match got {
        Ok(g) => {
            if g == want {
                return Ok(!want.is_empty());
            }
            let lost: Vec<String> = want.iter().filter(|(a, b)| g.get(*a) != Some(*b)).take(3).map(|(a, b)| format!("{a}:{} (got {:?})", *b as char, g.get(a).map(|x| *x as char))).collect();
            let extra: Vec<String> = g.iter().filter(|(a, _)| !want.contains_key(*a)).take(3).map(|(a, b)| format!("{a}:{}", *b as char)).collect();
            Err(format!("k-mers that reach the count but are lost or wrong: {lost:?}; k-mers below the count that entered: {extra:?}"))
        }
        Err(e) => {
            if want.is_empty() {
                Ok(false)
            } else {
                Err(format!("build refused ({}) although {} k-mers reach the count", e.chars().take(60).collect::<String>(), want.len()))
            }
        }
    }
}

fn run_case(rep: &mut Report, c: &Case, fam: &str) {
    rep.evaluations += 1;
    match check(c) {
        Ok(nt) => {
            if nt {
                rep.nontrivial += 1;
            }
        }
        Err(e) => {
            let j = case_json(c);
            rep.violate(format!("{fam} {j}"), format!("{fam} k={} rc={} c={} Q={} {}: {e}", c.k, c.rc, c.c, c.q, rule_name(c.rule)), j);
        }
    }
    // every sixth case once more with soft-masked reads: every second read has every third base in lower case (read
    // 1 from its first base on, read 3 from its second ...). Lower case is the same base: same dictionary expected.
    static BASE_CASES: std::sync::atomic::AtomicU64 = std::sync::atomic::AtomicU64::new(0);
    let base_idx = BASE_CASES.fetch_add(1, std::sync::atomic::Ordering::Relaxed);
    if base_idx % 6 == 1 && fam != "soft-masked" {
        let mask = |v: &Vec<Read>, off: usize| -> Vec<Read> {
            v.iter()
                .enumerate()
                .map(|(i, (s, q))| {
                    let t: Vec<u8> = s.iter().enumerate().map(|(p, b)| if (i + off) % 2 == 1 && (p + i / 2) % 3 == 0 { b.to_ascii_lowercase() } else { *b }).collect();
                    (t, q.clone())
                })
                .collect()
        };
        let files = [mask(&c.files[0], 1), mask(&c.files[1], 0)];
        let cm = Case { k: c.k, rc: c.rc, c: c.c, q: c.q, rule: c.rule, files: &files };
        rep.evaluations += 1;
        rep.corner("soft_masked_reads");
        match check(&cm) {
            Ok(nt) => {
                if nt {
                    rep.nontrivial += 1;
                }
            }
            Err(e) => {
                let j = case_json(&cm);
                rep.violate(format!("soft-masked {fam} {j}"), format!("{fam} with soft-masked (lower-case) bases k={} rc={} c={} Q={} {}: {e}", c.k, c.rc, c.c, c.q, rule_name(c.rule)), j);
            }
        }
    }
    // every sixth case once more with very high qualities: every passing quality replaced by one of 64..93 (legal
    // PHRED values written by long-read base callers; characters 'a'..'~'), failing ones kept: same dictionary
    if base_idx % 6 == 4 && fam != "soft-masked" {
        let lift = |v: &Vec<Read>, off: usize| -> Vec<Read> { v.iter().enumerate().map(|(i, (s, q))| (s.clone(), q.iter().enumerate().map(|(p, x)| if *x >= c.q { 64 + ((i + p + off) % 30) as u8 } else { *x }).collect())).collect() };
        let files = [lift(&c.files[0], 0), lift(&c.files[1], 7)];
        let cm = Case { k: c.k, rc: c.rc, c: c.c, q: c.q, rule: c.rule, files: &files };
        rep.evaluations += 1;
        rep.corner("qualities_64_to_93");
        match check(&cm) {
            Ok(nt) => {
                if nt {
                    rep.nontrivial += 1;
                }
            }
            Err(e) => {
                let j = case_json(&cm);
                rep.violate(format!("high-quality {fam} {j}"), format!("{fam} with passing qualities raised to 64..93 k={} rc={} c={} Q={} {}: {e}", c.k, c.rc, c.c, c.q, rule_name(c.rule)), j);
            }
        }
    }
    if rep.evaluations % 16 == 0 {
        rep.outcome(&read_filter_model(&[c.files[0].clone(), c.files[1].clone()], c.k, c.rc, c.c, c.q, c.rule));
    }
}

pub fn replay(case: &Value) -> Result<Option<String>, String> {
    let rd = |v: &Value| -> Vec<Read> { v.as_array().unwrap().iter().map(|r| (r[0].as_str().unwrap().as_bytes().to_vec(), r[1].as_array().unwrap().iter().map(|x| x.as_u64().unwrap() as u8).collect())).collect() };
    let files = [rd(&case["file1"]), rd(&case["file2"])];
    let c = Case { k: case["k"].as_u64().unwrap() as usize, rc: case["rc"].as_bool().unwrap(), c: case["min_count"].as_u64().unwrap() as usize, q: case["min_qual"].as_u64().unwrap() as u8, rule: rule_of(case["rule"].as_str().unwrap()), files: &files };
    Ok(check(&c).err())
}

pub fn run(ctx: &Ctx, rep: &mut Report) {
    let thorough = ctx.tier.thorough();
    let ks: Vec<usize> = if thorough { vec![5, 7, 9, 31, 33, 63] } else { vec![5, 9, 31, 33] };
    let mut idx = 0u64;
    // (run first: its cases are separate processes, so what they report can be replayed one by one)
    // Family M: several read samples in ONE `ska build` (nothing may carry over from one sample's filter to the next):
    // sample "full" sees the read R c times; sample "below" sees R only c-1 times and another read S c times. Each
    // column must be what the sample gives when built alone; both orders of the two samples, and a third sample.
    for (k, c) in [(9usize, 2usize), (9, 5), (33, 3), (31, 2)] {
        idx += 1;
        if !ctx.mine(idx) {
            continue;
        }
        let g = repeat_free(k + 6, k, 0, ctx.seed + 14);
        let r: Read = (g[..k + 2].to_vec(), vec![30u8; k + 2]);
        let s2: Read = (g[3..].to_vec(), vec![30u8; k + 3]);
        let dir = scratch::path("c12multi");
        let _ = std::fs::create_dir_all(&dir);
        let full: [Vec<Read>; 2] = [(0..c).map(|i| if i % 2 == 0 { r.clone() } else { rc_read(&r) }).collect(), vec![]];
        let below: [Vec<Read>; 2] = [(0..c - 1).map(|_| r.clone()).collect(), (0..c).map(|i| if i % 2 == 0 { s2.clone() } else { rc_read(&s2) }).collect()];
        let third: [Vec<Read>; 2] = [(0..c).map(|i| if i % 2 == 1 { s2.clone() } else { rc_read(&s2) }).collect(), (0..c - 1).map(|_| rc_read(&r)).collect()];
        for (name, f) in [("full", &full), ("below", &below), ("third", &third)] {
            std::fs::write(format!("{dir}/{name}_1.fastq"), fastq(&f[0])).unwrap();
            std::fs::write(format!("{dir}/{name}_2.fastq"), fastq(&f[1])).unwrap();
        }
        for order in [vec!["full", "below"], vec!["below", "full"], vec!["full", "third", "below"], vec!["third", "full"]] {
            for rc in [true, false] {
                rep.evaluations += 1;
                rep.nontrivial += 1;
                rep.corner("cli_build_several_read_samples");
                std::fs::write(format!("{dir}/list.txt"), order.iter().map(|n| format!("{n}\t{n}_1.fastq\t{n}_2.fastq\n")).collect::<String>()).unwrap();
                let (ks, cs) = (k.to_string(), c.to_string());
                let mut args = vec!["build", "-k", &ks, "-o", "multi", "-f", "list.txt", "--min-count", &cs, "--min-qual", "20", "--qual-filter", "strict"];
                if !rc {
                    args.push("--single-strand");
                }
                scratch::stale(&format!("{dir}/multi.skf"));
                let o = cli::run(&args, &dir, None);
                let got = cli::run(&["nk", "--full-info", "multi.skf"], &dir, None);
                let nk = cli::parse_nk(&got.stdout);
                // expected: each sample's own model dictionary
                let models: Vec<std::collections::BTreeMap<String, u8>> = order.iter().map(|n| { let f = match *n { "full" => &full, "below" => &below, _ => &third }; read_filter_model(&[f[0].clone(), f[1].clone()], k, rc, c, 20, QRule::Strict) }).collect();
                if models.iter().any(|m| m.is_empty()) {
                    // a sample without any k-mer at the count makes the build refuse: not this family's business
                    rep.corner("cli_build_several_read_samples_(a_sample_is_empty)");
                    continue;
                }
                let mut want: std::collections::BTreeMap<String, Vec<u8>> = std::collections::BTreeMap::new();
                for (i, m) in models.iter().enumerate() {
                    for (key, b) in m {
                        want.entry(key.clone()).or_insert_with(|| vec![b'-'; order.len()])[i] = *b;
                    }
                }
                let ok = o.code == 0 && nk.as_ref().map_or(false, |n| n.names == order.iter().map(|s| s.to_string()).collect::<Vec<_>>() && n.rows == want);
                if !ok {
                    let diff: Vec<String> = nk.as_ref().map(|n| want.iter().filter(|(a, b)| n.rows.get(*a) != Some(*b)).take(3).map(|(a, b)| format!("{a}: want {} got {:?}", String::from_utf8_lossy(b), n.rows.get(a).map(|x| String::from_utf8_lossy(x).to_string()))).collect()).unwrap_or_default();
                    let extra: Vec<String> = nk.as_ref().map(|n| n.rows.iter().filter(|(a, _)| !want.contains_key(*a)).take(3).map(|(a, b)| format!("{a}:{}", String::from_utf8_lossy(b))).collect()).unwrap_or_default();
                    rep.violate(format!("M k={k} c={c} rc={rc} order={order:?}"), format!("ska build of the read samples {order:?} in one command (exit {}), min-count {c}: columns differ from the samples built alone: {diff:?}; rows that should not exist: {extra:?}", o.code), json!({"cli": true, "multi": order, "k": k, "c": c, "rc": rc}));
                }
            }
        }
    }
    rep.completed.push("family M (CLI, several read samples)".into());
    for k in ks {
        let h = (k - 1) / 2;
        let g = repeat_free(k + 2, k, 0, ctx.seed + 12);
        let mut g2 = g.clone();
        g2[1 + h] = comp(g2[1 + h]);
        let hi = |len: usize, q: u8| vec![q.saturating_add(5).min(60); len];
        for rc in [true, false] {
            // Family A
            for c in 1..=6usize {
                let levels: Vec<usize> = {
                    let mut l = vec![0, c - 1, c, c + 1];
                    l.sort();
                    l.dedup();
                    l
                };
                for a in &levels {
                    for a2 in &levels {
                        if *a == 0 && *a2 == 0 {
                            continue;
                        }
                        for a_rev in 0..=*a {
                            for a2_rev in 0..=*a2 {
                                idx += 1;
                                if !ctx.mine(idx) {
                                    continue;
                                }
                                for rule in [QRule::None, QRule::Strict] {
                                    let central: Read = (g[1..k + 1].to_vec(), hi(k, 20));
                                    let central2: Read = (g2[1..k + 1].to_vec(), hi(k, 20));
                                    let mut f1: Vec<Read> = Vec::new();
                                    let mut f2: Vec<Read> = Vec::new();
                                    for _ in 0..(a - a_rev) {
                                        f1.push(central.clone());
                                    }
                                    for _ in 0..a_rev {
                                        f2.push(rc_read(&central));
                                    }
                                    for _ in 0..(a2 - a2_rev) {
                                        f1.push(central2.clone());
                                    }
                                    for _ in 0..a2_rev {
                                        f2.push(rc_read(&central2));
                                    }
                                    let files = [f1, f2];
                                    run_case(rep, &Case { k, rc, c, q: 20, rule, files: &files }, "A");
                                }
                                if *a == c || *a2 == c {
                                    rep.corner("count_exactly_at_threshold");
                                }
                                if a_rev > 0 && a_rev < *a {
                                    rep.corner("count_split_across_files_and_strands");
                                }
                            }
                        }
                    }
                }
                if ctx.expired() {
                    rep.capped = true;
                    return;
                }
            }
            // Family B
            for c in 1..=3usize {
                for rule in [QRule::None, QRule::Middle, QRule::Strict] {
                    for q in [0u8, 1, 20, 40] {
                        for dq in [-1i32, 0, 1] {
                            let lowq = q as i32 + dq;
                            if lowq < 0 {
                                continue;
                            }
                            // (read source, position)
                            let designs: Vec<(bool, usize)> = vec![(false, h), (false, h - 1), (false, 0), (false, k - 1), (true, 0), (true, h), (true, h + 1), (true, k + 1)];
                            for (long, pos) in designs {
                                idx += 1;
                                if !ctx.mine(idx) {
                                    continue;
                                }
                                let base: Read = if long { (g.clone(), hi(k + 2, q)) } else { (g[1..k + 1].to_vec(), hi(k, q)) };
                                let mut marked = base.clone();
                                marked.1[pos] = lowq as u8;
                                let mut f1: Vec<Read> = vec![marked];
                                let mut f2: Vec<Read> = Vec::new();
                                for i in 1..c {
                                    if i % 2 == 1 {
                                        f2.push(rc_read(&base));
                                    } else {
                                        f1.push(base.clone());
                                    }
                                }
                                let files = [std::mem::take(&mut f1), f2];
                                run_case(rep, &Case { k, rc, c, q, rule, files: &files }, "B");
                                if dq == 0 {
                                    rep.corner("quality_exactly_at_threshold");
                                }
                            }
                        }
                    }
                }
                if ctx.expired() {
                    rep.capped = true;
                    return;
                }
            }
            // Family C: N at every position of the long read, two copies, c = 2
            for pos in 0..(k + 2) {
                idx += 1;
                if !ctx.mine(idx) {
                    continue;
                }
                let mut r: Read = (g.clone(), hi(k + 2, 20));
                r.0[pos] = if pos % 2 == 0 { b'N' } else { b'n' };
                let clean: Read = (g.clone(), hi(k + 2, 20));
                let files = [vec![r.clone(), clean.clone()], vec![rc_read(&r)]];
                for c in [2usize, 3] {
                    run_case(rep, &Case { k, rc, c, q: 20, rule: QRule::Strict, files: &files }, "C");
                }
                rep.corner("N_in_read");
            }
            // Family C': a read of 2k+4 letters with N at every position: windows before and after the N, the N met in
            // the first window or by rolling, k valid bases or more behind it
            let glong = repeat_free(2 * k + 4, k, 0, ctx.seed + 13);
            for pos in 0..glong.len() {
                idx += 1;
                if !ctx.mine(idx) {
                    continue;
                }
                let mut r: Read = (glong.clone(), hi(glong.len(), 20));
                r.0[pos] = if pos % 2 == 0 { b'N' } else { b'n' };
                let clean: Read = (glong.clone(), hi(glong.len(), 20));
                let files = [vec![r.clone(), clean.clone()], vec![rc_read(&r)]];
                for c in [2usize, 3] {
                    for rule in [QRule::Strict, QRule::None] {
                        run_case(rep, &Case { k, rc, c, q: 20, rule, files: &files }, "C'");
                    }
                }
                // the same with a low-quality base instead of the N (strict rule restarts the window likewise)
                let mut lowq: Read = (glong.clone(), hi(glong.len(), 20));
                lowq.1[pos] = 3;
                let files = [vec![lowq.clone(), clean.clone()], vec![rc_read(&lowq)]];
                run_case(rep, &Case { k, rc, c: 2, q: 20, rule: QRule::Strict, files: &files }, "C'");
                // an N and, (k+1)/2 positions before or behind it (the middle base of the last window before / the first
                // window behind the N), a low-quality base: middle rule, the two windows have different verdicts
                for delta in [-((h + 1) as i64), (h + 1) as i64] {
                    let qpos = pos as i64 + delta;
                    if qpos < 0 || qpos as usize >= glong.len() {
                        continue;
                    }
                    let mut r2: Read = (glong.clone(), hi(glong.len(), 20));
                    r2.0[pos] = b'N';
                    r2.1[qpos as usize] = 3;
                    let files = [vec![r2.clone()], vec![rc_read(&r2)]];
                    for c in [1usize, 2] {
                        run_case(rep, &Case { k, rc, c, q: 20, rule: QRule::Middle, files: &files }, "C''");
                    }
                }
                rep.corner("N_inside_a_long_read");
            }
        }
        rep.completed.push(format!("k={k} families A, B, C"));
    }
    // Family P: k-mers whose two arms are reverse complements of each other (X m rc(X)): the k-mer and its reverse
    // complement X comp(m) rc(X) are one split k-mer with tied orientation; copies split between the strands in every way
    let pks: Vec<usize> = if thorough { vec![5, 7, 9, 15, 31, 33, 63] } else { vec![5, 7, 31, 33] };
    for k in pks {
        let h = (k - 1) / 2;
        let x = repeat_free(k + 40, k, 0, ctx.seed + 130)[3..3 + h].to_vec();
        for m in *b"ACGT" {
            for rc in [true, false] {
                idx += 1;
                if !ctx.mine(idx) {
                    continue;
                }
                let kmer: Vec<u8> = [x.as_slice(), &[m], rc_str(&x).as_slice()].concat();
                // also homopolymer arms around m (the all-zero / all-one words; A^h m T^h is self-complementary again)
                let homo_a: Vec<u8> = [vec![b'A'; h], vec![m], vec![b'A'; h]].concat();
                let homo_at: Vec<u8> = [vec![b'A'; h], vec![m], vec![b'T'; h]].concat();
                let homo_g: Vec<u8> = [vec![b'G'; h], vec![m], vec![b'G'; h]].concat();
                for kmer in [kmer, homo_a, homo_at, homo_g] {
                // bare (read of exactly k letters) and embedded in flanks (first window and rolled window)
                for (lf, rf) in [(&b""[..], &b""[..]), (&b"GT"[..], &b"CA"[..]), (&b""[..], &b"TTG"[..])] {
                    let read: Read = ([lf, kmer.as_slice(), rf].concat(), vec![30u8; lf.len() + k + rf.len()]);
                    for c in 1..=3usize {
                        for total in [c.saturating_sub(1), c, c + 1] {
                            for fwd in 0..=total {
                                let mut f1: Vec<Read> = Vec::new();
                                let mut f2: Vec<Read> = Vec::new();
                                for i in 0..fwd {
                                    if i % 2 == 0 { f1.push(read.clone()) } else { f2.push(read.clone()) }
                                }
                                for i in 0..(total - fwd) {
                                    if i % 2 == 0 { f2.push(rc_read(&read)) } else { f1.push(rc_read(&read)) }
                                }
                                let files = [f1, f2];
                                for rule in [QRule::None, QRule::Strict] {
                                    run_case(rep, &Case { k, rc, c, q: 20, rule, files: &files }, "P");
                                }
                            }
                        }
                    }
                }
                }
                rep.corner("self_complementary_arms");
            }
        }
        if ctx.expired() {
            rep.capped = true;
            return;
        }
        rep.completed.push(format!("k={k} family P"));
    }
    // Family E: every multiset of up to three reads drawn from all substrings (length k..k+3, both orientations)
    // of a genome of k+3 letters and of its one-substitution variant: the same k-mer is met at different offsets of
    // different reads (first window vs rolled windows), on both strands, in either file.
    let eks: Vec<usize> = if thorough { vec![5, 7, 31, 33, 63] } else { vec![5, 33] };
    for k in eks {
        let h = (k - 1) / 2;
        let g = repeat_free(k + 3, k, 0, ctx.seed + 125);
        let mut g2 = g.clone();
        g2[1 + h] = comp(g2[1 + h]);
        let mut menu: Vec<Vec<u8>> = Vec::new();
        for src in [&g, &g2] {
            for len in k..=k + 3 {
                for s in 0..=(k + 3 - len) {
                    let w = src[s..s + len].to_vec();
                    menu.push(rc_str_n(&w));
                    menu.push(w);
                }
            }
        }
        let half = menu.len() / 2; // reads of g only
        for rc in [true, false] {
            // E1: counts, quality irrelevant
            let m3 = if thorough { menu.len() } else { half };
            for i in 0..menu.len() {
                for j in i..menu.len() {
                    for l in j..=menu.len() {
                        // l == menu.len() stands for "no third read"
                        if l < menu.len() && (i >= m3 || j >= m3 || l >= m3) {
                            continue;
                        }
                        idx += 1;
                        if !ctx.mine(idx) {
                            continue;
                        }
                        let mut picks = vec![i, j];
                        if l < menu.len() {
                            picks.push(l);
                        }
                        let reads: Vec<Read> = picks.iter().map(|x| (menu[*x].clone(), vec![30u8; menu[*x].len()])).collect();
                        for split in 0..2 {
                            let mut f1 = Vec::new();
                            let mut f2 = Vec::new();
                            for (n, r) in reads.iter().enumerate() {
                                if split == 1 && n % 2 == 1 {
                                    f2.push(r.clone());
                                } else {
                                    f1.push(r.clone());
                                }
                            }
                            let files = [f1, f2];
                            for c in 1..=3usize {
                                run_case(rep, &Case { k, rc, c, q: 20, rule: QRule::Strict, files: &files }, "E1");
                            }
                        }
                        rep.corner("overlapping_reads_multiset");
                    }
                }
                if ctx.expired() {
                    rep.capped = true;
                    return;
                }
            }
            // E2: one low-quality base at every position of the first read of every pair of reads of g
            for i in 0..half {
                if !thorough && k > 5 {
                    break;
                }
                for j in 0..=half {
                    idx += 1;
                    if !ctx.mine(idx) {
                        continue;
                    }
                    // ends of the read and the middle base of each of its windows (all positions for small k)
                    let len = menu[i].len();
                    let mut positions: Vec<usize> = if k <= 7 { (0..len).collect() } else { vec![0, 1, h - 1, h, h + 1, h + 2, h + 3, len - 2, len - 1] };
                    positions.retain(|p| *p < len);
                    positions.sort();
                    positions.dedup();
                    for pos in positions {
                        for lowq in [19u8, 20] {
                            let mut first: Read = (menu[i].clone(), vec![30u8; menu[i].len()]);
                            first.1[pos] = lowq;
                            let mut f1 = vec![first];
                            let mut f2 = Vec::new();
                            if j < half {
                                f2.push((menu[j].clone(), vec![30u8; menu[j].len()]));
                                if pos % 2 == 0 {
                                    f1.append(&mut f2);
                                }
                            }
                            let files = [f1, f2];
                            for rule in [QRule::Middle, QRule::Strict] {
                                for c in 1..=2usize {
                                    run_case(rep, &Case { k, rc, c, q: 20, rule, files: &files }, "E2");
                                }
                            }
                        }
                    }
                    rep.corner("low_quality_base_in_overlapping_reads");
                }
                if ctx.expired() {
                    rep.capped = true;
                    return;
                }
            }
        }
        rep.completed.push(format!("k={k} family E"));
    }
    // Family D: through the CLI
    for (k, c, q, rule) in [(9usize, 2usize, 20u8, QRule::Middle), (31, 3, 20, QRule::Strict), (33, 2, 1, QRule::None), (9, 1, 40, QRule::Strict)] {
        idx += 1;
        if !ctx.mine(idx) {
            continue;
        }
        let g = repeat_free(k + 2, k, 0, ctx.seed + 12);
        let mut low: Read = (g.clone(), vec![q + 3; k + 2]);
        low.1[(k - 1) / 2 + 1] = q; // exactly at the threshold
        let files = [vec![low.clone(), (g.clone(), vec![q + 3; k + 2])], vec![rc_read(&low)]];
        let dir = scratch::path("c12cli");
        let _ = std::fs::create_dir_all(&dir);
        // CRLF line ends in the first file of the 128-bit and the min-count-1 configurations
        let crlf = |b: Vec<u8>| -> Vec<u8> { if k == 33 || c == 1 { String::from_utf8(b).unwrap().replace('\n', "\r\n").into_bytes() } else { b } };
        std::fs::write(format!("{dir}/r1.fastq"), crlf(fastq(&files[0]))).unwrap();
        std::fs::write(format!("{dir}/r2.fastq"), fastq(&files[1])).unwrap();
        // the list file: tab-separated with LF, or space-separated with CRLF
        std::fs::write(format!("{dir}/list.txt"), if k == 31 || c == 1 { "smp  r1.fastq r2.fastq\r\n" } else { "smp\tr1.fastq\tr2.fastq\n" }).unwrap();
        for rc in [true, false] {
            rep.evaluations += 1;
            rep.nontrivial += 1;
            rep.corner("cli_build_reads");
            let want = read_filter_model(&[files[0].clone(), files[1].clone()], k, rc, c, q, rule);
            let (ks, cs, qs) = (k.to_string(), c.to_string(), q.to_string());
            let mut args = vec!["build", "-k", &ks, "-o", "rd", "-f", "list.txt", "--min-count", &cs, "--min-qual", &qs, "--qual-filter", rule_name(rule)];
            if !rc {
                args.push("--single-strand");
            }
            scratch::stale(&format!("{dir}/rd.skf"));
            let o = cli::run(&args, &dir, None);
            let got = cli::run(&["nk", "--full-info", "rd.skf"], &dir, None);
            let rows = cli::parse_nk(&got.stdout).map(|n| n.rows).unwrap_or_default();
            let got_d: std::collections::BTreeMap<String, u8> = rows.iter().map(|(a, b)| (a.clone(), b[0])).collect();
            let ok = if o.code != 0 { want.is_empty() } else { got_d == want };
            if !ok {
                rep.violate(format!("D k={k} rc={rc} c={c} Q={q} {}", rule_name(rule)), format!("ska build from reads (exit {}) stores {} k-mers, model {}", o.code, got_d.len(), want.len()), json!({"cli": true, "k": k, "rc": rc, "c": c, "q": q, "rule": rule_name(rule)}));
            }
        }
    }
    // Family D': a single FASTQ file (positional argument, and a two-field list line): reads, filtered alike
    for (k, c, q, rule) in [(9usize, 2usize, 20u8, QRule::Middle), (33, 1, 20, QRule::Strict)] {
        idx += 1;
        if !ctx.mine(idx) {
            continue;
        }
        let g = repeat_free(k + 2, k, 0, ctx.seed + 12);
        let mut low: Read = (g.clone(), vec![q + 3; k + 2]);
        low.1[(k - 1) / 2 + 1] = q - 1; // just below the threshold
        let files = [vec![low.clone(), (g.clone(), vec![q + 3; k + 2]), rc_read(&(g.clone(), vec![q + 3; k + 2]))], vec![]];
        let dir = scratch::path("c12cli1");
        let _ = std::fs::create_dir_all(&dir);
        std::fs::write(format!("{dir}/solo.fastq"), fastq(&files[0])).unwrap();
        std::fs::write(format!("{dir}/list1.txt"), "solo\tsolo.fastq\n").unwrap();
        for rc in [true, false] {
            let want = read_filter_model(&[files[0].clone(), vec![]], k, rc, c, q, rule);
            let (ks, cs, qs) = (k.to_string(), c.to_string(), q.to_string());
            for via_list in [false, true] {
                rep.evaluations += 1;
                rep.nontrivial += 1;
                rep.corner("cli_build_single_fastq");
                let mut args = vec!["build", "-k", &ks, "-o", "rd1", "--min-count", &cs, "--min-qual", &qs, "--qual-filter", rule_name(rule)];
                if via_list {
                    args.extend(["-f", "list1.txt"]);
                } else {
                    args.push("solo.fastq");
                }
                if !rc {
                    args.push("--single-strand");
                }
                scratch::stale(&format!("{dir}/rd1.skf"));
                let o = cli::run(&args, &dir, None);
                let got = cli::run(&["nk", "--full-info", "rd1.skf"], &dir, None);
                let nk = cli::parse_nk(&got.stdout);
                let rows = nk.as_ref().map(|n| n.rows.clone()).unwrap_or_default();
                let got_d: std::collections::BTreeMap<String, u8> = rows.iter().map(|(a, b)| (a.clone(), b[0])).collect();
                let ok = if o.code != 0 { want.is_empty() } else { got_d == want && nk.as_ref().map_or(false, |n| n.names == vec!["solo".to_string()]) };
                if !ok {
                    rep.violate(format!("D1 k={k} rc={rc} c={c} Q={q} {} list={via_list}", rule_name(rule)), format!("ska build from one FASTQ file (exit {}) stores {} k-mers, model {}", o.code, got_d.len(), want.len()), json!({"cli": true, "single": true, "k": k, "rc": rc, "c": c, "q": q, "rule": rule_name(rule)}));
                }
            }
        }
    }
    rep.completed.push("family D (CLI)".into());
    // collision bound on a larger data set
    idx += 1;
    if ctx.mine(idx) {
        let k = 31;
        let glen = if thorough { 50_000 } else { 20_000 };
        let g = repeat_free(glen, k, 0, ctx.seed + 121);
        let mut f1: Vec<Read> = Vec::new();
        let mut f2: Vec<Read> = Vec::new();
        let mut p = 0;
        let mut n = 0;
        while p + 100 <= g.len() {
            let mut r: Read = (g[p..p + 100].to_vec(), vec![30; 100]);
            // every third read carries one substitution error: its k-mers are singletons
            if n % 3 == 2 {
                r.0[50] = comp(r.0[50]);
            }
            if n % 2 == 0 {
                f1.push(r);
            } else {
                f2.push(rc_read(&r));
            }
            p += 25;
            n += 1;
        }
        let files = [f1, f2];
        let want = read_filter_model(&[files[0].clone(), files[1].clone()], k, true, 2, 20, QRule::Strict);
        let p1 = scratch::write("c12_big1.fastq", &fastq(&files[0]));
        let p2 = scratch::write("c12_big2.fastq", &fastq(&files[1]));
        rep.evaluations += 1;
        rep.nontrivial += 1;
        match real::build_dict_reads::<u64>(&p1, &p2, k, true, 2, 20, QRule::Strict) {
            Ok(got) => {
                let lost = want.iter().filter(|(a, b)| got.get(*a).map_or(true, |x| set_of(*x).unwrap_or(0) & set_of(**b).unwrap_or(0) != set_of(**b).unwrap_or(0))).count();
                let extra = got.len().saturating_sub(want.len()) + got.iter().filter(|(a, b)| want.get(*a).map_or(false, |w| w != *b)).count();
                rep.extra.insert("max_large_set_distinct_kmers".into(), json!(want.len()));
                rep.extra.insert("max_large_set_extra_entries".into(), json!(extra));
                if lost > 0 {
                    rep.violate("large set: lost".into(), format!("{lost} k-mers that reach the count are missing in the larger data set"), json!({"large": true}));
                }
                if (extra as f64) >= 0.001 * want.len() as f64 {
                    rep.violate("large set: extras".into(), format!("{extra} of {} k-mers entered below the count (>= 0.1%)", want.len()), json!({"large": true}));
                }
            }
            Err(e) => rep.violate("large set: refused".into(), format!("larger data set refused: {e}"), json!({"large": true})),
        }
        rep.corner("large_set");
    }
    // a large sample: a 400 kb random genome given three times as reads (two copies in file 1, its reverse complement
    // in file 2), min-count 3: every k-mer reaches the count, so the result must be the dictionary that the FASTA
    // builder gives for the genome — none lost. (About 4e5 distinct k-mers: enough for 64-bit hashes folded to 32
    // bits to collide.)
    idx += 1;
    if ctx.mine(idx) {
        let k = 31;
        let mut x = crate::enumerate::splitmix(ctx.seed.wrapping_add(1212));
        let genome: Vec<u8> = (0..400_000)
            .map(|_| {
                x = crate::enumerate::splitmix(x);
                b"ACGT"[(x >> 33) as usize & 3]
            })
            .collect();
        let fa = scratch::write("c12_huge.fa", &scratch::fasta(&[genome.clone()]));
        let q = vec![b'I'; genome.len()];
        let mut f1 = Vec::new();
        for name in ["a", "b"] {
            f1.extend_from_slice(format!("@{name}\n").as_bytes());
            f1.extend_from_slice(&genome);
            f1.extend_from_slice(b"\n+\n");
            f1.extend_from_slice(&q);
            f1.push(b'\n');
        }
        let mut f2 = b"@c\n".to_vec();
        f2.extend_from_slice(&rc_str(&genome));
        f2.extend_from_slice(b"\n+\n");
        f2.extend_from_slice(&q);
        f2.push(b'\n');
        let p1 = scratch::write("c12_huge1.fastq", &f1);
        let p2 = scratch::write("c12_huge2.fastq", &f2);
        rep.evaluations += 1;
        rep.nontrivial += 1;
        rep.corner("large_sample_400kb");
        match (real::build_dict::<u64>(&fa, k, true), real::build_dict_reads::<u64>(&p1, &p2, k, true, 3, 20, QRule::Strict)) {
            (Ok(want), Ok(got)) => {
                let lost = want.iter().filter(|(a, b)| got.get(*a) != Some(*b)).count();
                let extra = got.keys().filter(|a| !want.contains_key(*a)).count();
                rep.extra.insert("max_huge_set_distinct_kmers".into(), json!(want.len()));
                if lost > 0 || extra > 0 {
                    rep.violate("huge set".into(), format!("400 kb genome given three times, min-count 3: {lost} of {} k-mers that reach the count are lost or differ, {extra} others entered", want.len()), json!({"huge": true}));
                }
            }
            (a, b) => rep.violate("huge set: refused".into(), format!("400 kb genome: FASTA build {:?}, read build {:?}", a.err(), b.err()), json!({"huge": true})),
        }
        // the same genome at min-count 2: twice in file 1, and in file 2 once with a substitution every 40 bases — the
        // ~3*10^5 k-mers that cover a substitution are seen once and must stay out (fewer than 0.1% of the distinct
        // k-mers may enter through filter collisions), every genome k-mer must be in
        let mut noisy = genome.clone();
        for p in (17..noisy.len()).step_by(40) {
            noisy[p] = comp(noisy[p]);
        }
        let mut f2 = b"@c\n".to_vec();
        f2.extend_from_slice(&noisy);
        f2.extend_from_slice(b"\n+\n");
        f2.extend_from_slice(&q);
        f2.push(b'\n');
        let p2b = scratch::write("c12_huge2b.fastq", &f2);
        rep.evaluations += 1;
        rep.nontrivial += 1;
        rep.corner("large_sample_400kb_with_singletons");
        match (real::build_dict::<u64>(&fa, k, true), real::build_dict_reads::<u64>(&p1, &p2b, k, true, 2, 20, QRule::Strict)) {
            (Ok(want), Ok(got)) => {
                let lost = want.iter().filter(|(a, b)| got.get(*a).map_or(true, |x| set_of(*x).unwrap_or(0) & set_of(**b).unwrap_or(0) != set_of(**b).unwrap_or(0))).count();
                let extra = got.keys().filter(|a| !want.contains_key(*a)).count() + got.iter().filter(|(a, b)| want.get(*a).map_or(false, |w| w != *b)).count();
                rep.extra.insert("max_huge_set_singletons_entered".into(), json!(extra));
                if lost > 0 {
                    rep.violate("huge set c=2: lost".into(), format!("400 kb genome twice + a noisy copy, min-count 2: {lost} k-mers that reach the count are lost"), json!({"huge": 2}));
                }
                if (extra as f64) >= 0.001 * want.len() as f64 {
                    rep.violate("huge set c=2: extras".into(), format!("400 kb genome twice + a noisy copy, min-count 2: {extra} k-mers seen once entered ({} distinct k-mers reach the count; 0.1% = {})", want.len(), want.len() / 1000), json!({"huge": 2}));
                }
            }
            (a, b) => rep.violate("huge set c=2: refused".into(), format!("400 kb genome: FASTA build {:?}, read build {:?}", a.err(), b.err()), json!({"huge": 2})),
        }
        let _ = std::fs::remove_file(&p2b);
        let _ = std::fs::remove_file(&p1);
        let _ = std::fs::remove_file(&p2);
        let _ = std::fs::remove_file(&fa);
    }
    rep.sample(json!({"family": "B", "k": 9, "min_count": 2, "min_qual": 20, "rule": "middle", "file1": [["<central 9-mer>", "quality 20 at the middle base, 25 elsewhere"]], "file2": [["<reverse complement>", "25 everywhere"]], "expected": "k-mer present (quality equal to the threshold passes)"}));
}
