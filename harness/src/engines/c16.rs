//! C16 — bit packing, reverse complement and rolling updates are exact for all k.

use serde_json::json;
use std::borrow::Cow;

use ska::ska_dict::bit_encoding::{decode_kmer, UInt as _};
use ska::ska_dict::nthash::NtHashIterator;
use ska::ska_dict::split_kmer::SplitKmer;
use ska::QualFilter;

use super::c01::ALL_K;
use crate::enumerate::{repeat_free, strings};
use crate::explore::{Ctx, Meta, Report};
use crate::mirror::{pack, unpack};
use crate::real::Int;
use crate::refmodel::*;

pub fn meta() -> Meta {
    Meta {
        id: "C16",
        level: "exploration",
        rule: "string-level pack/unpack/reverse-complement model against the real UInt primitives: (a) every string of length k-1 and k for k=5,7,9,11 (thorough: 13, 15) in both widths; (b) for all 30 k and both widths (u64 for k<=31) every string within Hamming distance 2 of the four homopolymers and two mixed backgrounds, at lengths k-1 and k; (c) rolling: for every k a repeat-free sequence of length 4k with an N substituted at every position in turn, runs of N of length 2, k-1, k, k+1, k+2, 2k+1 inside the sequence and at its start, records of exactly k-1, k and k+1 letters and of k letters next to an N (each window is also rebuilt from scratch as a record of exactly k letters), plus the k=5 restart family L+N+R: at every window the rolled (k-mer, middle base, strand flag, middle position, hash) equals the model's canonical form and a fresh SplitKmer/NtHashIterator on that window, both strand modes, with and without the read hash; the same sequence in RNA spelling (U, u), mixed case with U/u, with IUPAC letters at every seventh position and with an N besides: self-consistency only (every window the iterator yields, rebuilt from the same letters as a record of its own, gives the same k-mer, middle base, strand flag and hash); (d) hash(k-mer) = hash(reverse complement) in two-strand mode. Non-trivial = every evaluated string/window (all carry an expected value); distinct outcomes = distinct expected packed values.".into(),
        assumptions: vec!["the independent packing convention A=0,C=1,T=2,G=3, first letter most significant, is the documented one".into()],
        exhaustive_when_uncapped: true,
    }
}

fn check_string<I: Int>(rep: &mut Report, s: &[u8], k_for_masks: Option<usize>) {
    rep.evaluations += 1;
    rep.nontrivial += 1;
    let n = s.len();
    let want = pack(s);
    let got = I::encode_kmer(s);
    let bits = I::WIDTH;
    let mut bad: Option<String> = None;
    if got.as_u128() != want {
        bad = Some(format!("encode_kmer gives {:#x}, expected {:#x}", got.as_u128(), want));
    }
    // reverse complement
    let r = got.rev_comp(n);
    let want_r = pack(&rc_str(s));
    if bad.is_none() && r.as_u128() != want_r {
        bad = Some(format!("rev_comp gives {}, expected {}", unpack(r.as_u128(), n), unpack(want_r, n)));
    }
    if bad.is_none() && r.rev_comp(n).as_u128() != want {
        bad = Some("rev_comp is not an involution".into());
    }
    // skalo decode (full string)
    if bad.is_none() && 2 * n < bits as usize {
        let d = I::skalo_decode_kmer(got, n);
        if d.as_bytes() != s {
            bad = Some(format!("skalo_decode_kmer gives {d}"));
        }
    }
    // split decode: s is the arms of a split k-mer with k = n+1
    if let Some(k) = k_for_masks {
        let h = (k - 1) / 2;
        let (lower_mask, upper_mask) = I::generate_masks(k);
        let lm = (1u128 << (2 * h)) - 1;
        if bad.is_none() && (lower_mask.as_u128() != lm || upper_mask.as_u128() != lm << (2 * h)) {
            bad = Some(format!("generate_masks({k}) = ({:#x},{:#x})", lower_mask.as_u128(), upper_mask.as_u128()));
        }
        let (u, l) = decode_kmer(k, got, upper_mask, lower_mask);
        if bad.is_none() && (u.as_bytes() != &s[..h] || l.as_bytes() != &s[h..]) {
            bad = Some(format!("decode_kmer gives {u} {l}"));
        }
    }
    if rep.evaluations % 64 == 0 {
        rep.outcome(&want);
    }
    if let Some(b) = bad {
        let st = String::from_utf8_lossy(s).to_string();
        rep.violate(format!("pack bits={bits} len={n} s={st}"), format!("{st} ({bits}-bit): {b}"), json!({"part":"pack","bits":bits,"s":st}));
    }
}

fn neighbours2(bg: &[u8], mut f: impl FnMut(&[u8])) {
    let n = bg.len();
    let mut s = bg.to_vec();
    f(&s);
    for i in 0..n {
        for b in *b"ACGT" {
            if b == bg[i] {
                continue;
            }
            s[i] = b;
            f(&s);
            for j in (i + 1)..n {
                for c in *b"ACGT" {
                    if c == bg[j] {
                        continue;
                    }
                    s[j] = c;
                    f(&s);
                }
                s[j] = bg[j];
            }
        }
        s[i] = bg[i];
    }
}

/// Roll along `seq` with the real SplitKmer and compare every window with the model and a fresh object
fn check_rolling_inner<I: Int>(rep: &mut Report, seq: &[u8], k: usize, rc: bool, reads: bool) {
    let h = (k - 1) / 2;
    let wins = windows(seq, k);
    let describe = || format!("roll bits={} k={k} rc={rc} reads={reads} seq={}", I::WIDTH, String::from_utf8_lossy(seq));
    let case = || json!({"part":"roll","bits":I::WIDTH,"k":k,"rc":rc,"reads":reads,"seq":String::from_utf8_lossy(seq)});
    let it = SplitKmer::<I>::new(Cow::Borrowed(seq), seq.len(), None, k, rc, 0, QualFilter::NoFilter, reads);
    let mut got: Vec<(u128, u8, bool, usize, Option<u64>)> = Vec::new();
    if let Some(mut it) = it {
        let (km, b, f) = it.get_curr_kmer();
        got.push((km.as_u128(), b, f, it.get_middle_pos(), if reads { Some(it.get_hash()) } else { None }));
        while let Some((km, b, f)) = it.get_next_kmer() {
            got.push((km.as_u128(), b, f, it.get_middle_pos(), if reads { Some(it.get_hash()) } else { None }));
            if got.len() > seq.len() + 2 {
                break;
            }
        }
    }
    rep.evaluations += 1;
    if got.len() != wins.len() {
        rep.violate(describe(), format!("sliding yields {} windows, {} expected", got.len(), wins.len()), case());
        return;
    }
    for ((pos, w), g) in wins.iter().zip(&got) {
        rep.evaluations += 1;
        rep.nontrivial += 1;
        let (key, mask, flag) = canon(w, rc);
        // middle base reported: the one of the chosen orientation
        let mid = if flag { comp(w[h]) } else { w[h] };
        let want_mid = crate::mirror::code2(mid) as u8;
        let mut bad = None;
        if g.0 != pack(key.as_bytes()) {
            bad = Some(format!("window at {pos}: k-mer {} expected {key}", unpack(g.0, k - 1)));
        } else if g.1 != want_mid || g.2 != flag {
            bad = Some(format!("window at {pos}: middle/strand ({},{}) expected ({},{})", g.1, g.2, want_mid, flag));
        } else if g.3 != *pos {
            bad = Some(format!("window centred at {pos}: middle position reported {}", g.3));
        }
        let _ = mask;
        // from scratch on this window as a record of its own (exactly k letters)
        if bad.is_none() {
            let fresh_seq = w.clone();
            let fresh = SplitKmer::<I>::new(Cow::Borrowed(&fresh_seq), fresh_seq.len(), None, k, rc, 0, QualFilter::NoFilter, reads);
            match fresh {
                None => bad = Some(format!("fresh SplitKmer on window at {pos} yields nothing")),
                Some(fr) => {
                    let (km, b, f) = fr.get_curr_kmer();
                    if (km.as_u128(), b, f) != (g.0, g.1, g.2) {
                        bad = Some(format!("window at {pos}: rolled value differs from from-scratch value"));
                    }
                    if reads {
                        let hs = fr.get_hash();
                        let direct = NtHashIterator::new(w, k, rc).curr_hash();
                        if Some(hs) != g.4 || hs != direct {
                            bad = Some(format!("window at {pos}: rolled hash {:?} from-scratch {hs} direct {direct}", g.4));
                        }
                        if rc {
                            let r = rc_str(w);
                            let hr = NtHashIterator::new(&r, k, true).curr_hash();
                            if hr != direct {
                                bad = Some(format!("window at {pos}: hash differs from hash of reverse complement"));
                            }
                        }
                    }
                }
            }
        }
        if let Some(b) = bad {
            rep.violate(describe(), b, case());
            return;
        }
    }
}

/// "Sliding equals from scratch" in the code's own terms, for letters the model has no reading of (U, u, IUPAC letters in a
/// sequence): every window the real iterator yields is rebuilt from the SAME letters as a record of its own; k-mer, middle
/// base, strand flag and read hash must agree, and the direct ntHash of the window too.
fn check_self_consistency<I: Int>(rep: &mut Report, seq: &[u8], k: usize, rc: bool) {
    let h = (k - 1) / 2;
    let describe = || format!("self-consistency bits={} k={k} rc={rc} seq={}", I::WIDTH, String::from_utf8_lossy(seq));
    let case = || json!({"part":"self","bits":I::WIDTH,"k":k,"rc":rc,"seq":String::from_utf8_lossy(seq)});
    let r = std::panic::catch_unwind(std::panic::AssertUnwindSafe(|| {
        let mut got: Vec<(u128, u8, bool, usize, u64)> = Vec::new();
        if let Some(mut it) = SplitKmer::<I>::new(Cow::Borrowed(seq), seq.len(), None, k, rc, 0, QualFilter::NoFilter, true) {
            let (km, b, f) = it.get_curr_kmer();
            got.push((km.as_u128(), b, f, it.get_middle_pos(), it.get_hash()));
            while let Some((km, b, f)) = it.get_next_kmer() {
                got.push((km.as_u128(), b, f, it.get_middle_pos(), it.get_hash()));
                if got.len() > seq.len() + 2 {
                    break;
                }
            }
        }
        let mut bad: Option<String> = None;
        for g in &got {
            if g.3 < h || g.3 + h >= seq.len() {
                bad = Some(format!("middle position {} outside the sequence", g.3));
                break;
            }
            let w = &seq[g.3 - h..g.3 + h + 1];
            match SplitKmer::<I>::new(Cow::Borrowed(w), w.len(), None, k, rc, 0, QualFilter::NoFilter, true) {
                None => {
                    bad = Some(format!("window centred at {} ({}) is yielded while sliding but yields nothing as a record of its own", g.3, String::from_utf8_lossy(w)));
                    break;
                }
                Some(fr) => {
                    let (km, b, f) = fr.get_curr_kmer();
                    let direct = NtHashIterator::new(w, k, rc).curr_hash();
                    if (km.as_u128(), b, f) != (g.0, g.1, g.2) {
                        bad = Some(format!("window centred at {} ({}): k-mer/middle/strand while sliding differ from the from-scratch values", g.3, String::from_utf8_lossy(w)));
                        break;
                    }
                    if fr.get_hash() != g.4 || direct != g.4 {
                        bad = Some(format!("window centred at {} ({}): hash while sliding {} from scratch {} direct {direct}", g.3, String::from_utf8_lossy(w), g.4, fr.get_hash()));
                        break;
                    }
                }
            }
        }
        (got.len(), bad)
    }));
    match r {
        Ok((n, bad)) => {
            rep.evaluations += 1 + n as u64;
            rep.nontrivial += n as u64;
            if let Some(b) = bad {
                rep.violate(describe(), b, case());
            }
        }
        Err(e) => rep.violate(describe(), format!("sliding along the sequence panicked: {}", crate::forkrun::panic_message(&e)), case()),
    }
}

/// the real iterator may panic on a broken tree: that is a finding about the code, not an engine crash
fn check_rolling<I: Int>(rep: &mut Report, seq: &[u8], k: usize, rc: bool, reads: bool) {
    let r = std::panic::catch_unwind(std::panic::AssertUnwindSafe(|| check_rolling_inner::<I>(rep, seq, k, rc, reads)));
    if let Err(e) = r {
        let msg = crate::forkrun::panic_message(&e);
        rep.violate(
            format!("roll bits={} k={k} rc={rc} reads={reads} seq={}", I::WIDTH, String::from_utf8_lossy(seq)),
            format!("sliding along the sequence panicked: {msg}"),
            json!({"part":"roll","bits":I::WIDTH,"k":k,"rc":rc,"reads":reads,"seq":String::from_utf8_lossy(seq)}),
        );
    }
}

pub fn replay(case: &serde_json::Value) -> Result<Option<String>, String> {
    let mut rep = Report::default();
    let bits = case["bits"].as_u64().ok_or("bits")?;
    match case["part"].as_str() {
        Some("pack") => {
            let s = case["s"].as_str().ok_or("s")?.as_bytes().to_vec();
            let km = if s.len() % 2 == 0 { Some(s.len() + 1) } else { None };
            if bits == 64 {
                check_string::<u64>(&mut rep, &s, km)
            } else {
                check_string::<u128>(&mut rep, &s, km)
            }
        }
        Some("roll") => {
            let seq = case["seq"].as_str().ok_or("seq")?.as_bytes().to_vec();
            let k = case["k"].as_u64().unwrap() as usize;
            let rc = case["rc"].as_bool().unwrap();
            let reads = case["reads"].as_bool().unwrap();
            if bits == 64 {
                check_rolling::<u64>(&mut rep, &seq, k, rc, reads)
            } else {
                check_rolling::<u128>(&mut rep, &seq, k, rc, reads)
            }
        }
        Some("self") => {
            let seq = case["seq"].as_str().ok_or("seq")?.as_bytes().to_vec();
            let k = case["k"].as_u64().unwrap() as usize;
            let rc = case["rc"].as_bool().unwrap();
            if bits == 64 {
                check_self_consistency::<u64>(&mut rep, &seq, k, rc)
            } else {
                check_self_consistency::<u128>(&mut rep, &seq, k, rc)
            }
        }
        _ => return Err("unknown part".into()),
    }
    Ok(rep.violations.first().map(|v| v.what.clone()))
}

pub fn run(ctx: &Ctx, rep: &mut Report) {
    let thorough = ctx.tier.thorough();
    let mut idx = 0u64;
    let mut capped = false;
    // (a) complete small k
    let ks: &[usize] = if thorough { &[5, 7, 9, 11, 13, 15] } else { &[5, 7, 9, 11] };
    for k in ks {
        for len in [k - 1, *k] {
            let km = if len == k - 1 { Some(*k) } else { None };
            strings(b"ACGT", len, |s| {
                idx += 1;
                if ctx.mine(idx) {
                    check_string::<u64>(rep, s, km);
                    check_string::<u128>(rep, s, km);
                }
                if idx % 65536 == 0 && ctx.expired() {
                    capped = true;
                    return false;
                }
                true
            });
        }
        if capped {
            break;
        }
        rep.completed.push(format!("(a) all strings of length k-1 and k for k={k}"));
    }
    // (b) every k, Hamming ball of radius 2
    if !capped {
        for k in ALL_K {
            for len in [k - 1, k] {
                let km = if len == k - 1 { Some(k) } else { None };
                let mixed1 = repeat_free(len, 5, 1, ctx.seed + 3);
                let mixed2: Vec<u8> = (0..len).map(|i| b"ACGT"[(i * 7 + i / 3) % 4]).collect();
                let mut bgs: Vec<Vec<u8>> = b"ACGT".iter().map(|b| vec![*b; len]).collect();
                bgs.push(mixed1);
                bgs.push(mixed2);
                for bg in bgs {
                    idx += 1;
                    if !ctx.mine(idx) {
                        continue;
                    }
                    neighbours2(&bg, |s| {
                        if len <= 32 {
                            check_string::<u64>(rep, s, if k <= 31 { km } else { None });
                        }
                        check_string::<u128>(rep, s, km);
                    });
                    rep.corner("hamming_ball");
                }
            }
            if ctx.expired() {
                capped = true;
                break;
            }
            rep.completed.push(format!("(b) k={k}"));
        }
    }
    // (c) rolling
    if !capped {
        for k in ALL_K {
            let base = repeat_free(4 * k, k, 0, ctx.seed + k as u64);
            let step = if thorough || k <= 9 { 1 } else { 1 };
            let mut seqs: Vec<Vec<u8>> = vec![base.clone()];
            let mut p = 0;
            while p < base.len() {
                let mut s = base.clone();
                s[p] = if p % 2 == 0 { b'N' } else { b'n' };
                seqs.push(s);
                p += step;
            }
            // records of exactly k, k+1 and k-1 letters (one window, two, none), and N + exactly k letters
            seqs.push(base[..k].to_vec());
            seqs.push(base[1..k + 2].to_vec());
            seqs.push(base[..k - 1].to_vec());
            seqs.push([b"N".as_slice(), &base[2..k + 2]].concat());
            seqs.push([&base[..k], b"N".as_slice()].concat());
            // runs of N of length 2, k-1, k, k+1, k+2 and 2k+1 inside the sequence and at its start
            for r in [2usize, k - 1, k, k + 1, k + 2, 2 * k + 1] {
                let run = vec![b'N'; r];
                seqs.push([&base[..k + 2], run.as_slice(), &base[k + 2..]].concat());
                seqs.push([run.as_slice(), &base[..2 * k]].concat());
                let mixed: Vec<u8> = (0..r).map(|i| if i % 2 == 0 { b'N' } else { b'n' }).collect();
                seqs.push([&base[..k], mixed.as_slice(), &base[k..2 * k + 1], b"N".as_slice()].concat());
            }
            // a lower-case copy and two adjacent Ns
            seqs.push(base.iter().map(|c| c.to_ascii_lowercase()).collect());
            let mut s2 = base.clone();
            s2[k] = b'N';
            s2[k + 1] = b'N';
            seqs.push(s2);
            // letters the model does not read (RNA spelling U/u; IUPAC letters inside a sequence): self-consistency only
            {
                let rna: Vec<u8> = base.iter().map(|c| if *c == b'T' { b'U' } else { *c }).collect();
                let rna_lower: Vec<u8> = rna.iter().map(|c| c.to_ascii_lowercase()).collect();
                let mixed: Vec<u8> = base.iter().enumerate().map(|(i, c)| match (*c, i % 4) { (b'T', 0) => b'U', (b'T', 1) => b'u', (x, 2) => x.to_ascii_lowercase(), (x, _) => x }).collect();
                let iupac: Vec<u8> = base.iter().enumerate().map(|(i, c)| if i % 7 == 3 { b"RYKMSWBDHV"[(i / 7) % 10] } else { *c }).collect();
                let mut with_n = mixed.clone();
                with_n[k + 1] = b'N';
                for s in [rna, rna_lower, mixed, iupac, with_n] {
                    idx += 1;
                    if !ctx.mine(idx) {
                        continue;
                    }
                    for rc in [true, false] {
                        if k <= 31 {
                            check_self_consistency::<u64>(rep, &s, k, rc);
                        }
                        check_self_consistency::<u128>(rep, &s, k, rc);
                    }
                    rep.corner("rolling_sequence_with_letters_outside_ACGTN");
                }
            }
            for s in seqs {
                idx += 1;
                if !ctx.mine(idx) {
                    continue;
                }
                for rc in [true, false] {
                    for reads in [false, true] {
                        if k <= 31 {
                            check_rolling::<u64>(rep, &s, k, rc, reads);
                        }
                        if k > 31 || reads == rc {
                            check_rolling::<u128>(rep, &s, k, rc, reads);
                        }
                    }
                }
                rep.corner("rolling_sequence");
            }
            if ctx.expired() {
                capped = true;
                break;
            }
            rep.completed.push(format!("(c) rolling k={k}"));
        }
    }
    // restart family at k=5
    if !capped {
        let k = 5usize;
        let mut all_r: Vec<Vec<u8>> = Vec::new();
        strings(b"ACGT", k + 1, |w| {
            all_r.push(w.to_vec());
            true
        });
        let lefts: Vec<&[u8]> = vec![b"ACAGT", b"ACCGT", b"TGACA", b"AAACG", b"GTTTA", b"CCCCC", b"ACGTA", b"TATAT"];
        for l in &lefts {
            for r in &all_r {
                idx += 1;
                if !ctx.mine(idx) {
                    continue;
                }
                let s = [*l, b"N".as_slice(), r.as_slice()].concat();
                check_rolling::<u64>(rep, &s, k, true, true);
                check_rolling::<u64>(rep, &s, k, false, false);
                // mirrored: all (k+1)-mers on the left, representative on the right
                let s = [r.as_slice(), b"N".as_slice(), *l].concat();
                check_rolling::<u64>(rep, &s, k, true, false);
                rep.corner("restart_family");
            }
        }
        rep.completed.push("(c) restart family k=5".into());
    }
    rep.sample(json!({"part":"pack","s":"ACGTTGCA","packed_hex":format!("{:#x}", pack(b"ACGTTGCA"))}));
    rep.sample(json!({"part":"roll","k":7,"seq":"ACGTTGNCATTAGCA","checked":"k-mer, middle base, strand flag, middle position, hash at every window"}));
    rep.capped = capped;
}
