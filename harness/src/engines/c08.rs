//! C08 — deleting samples leaves exactly the file built from the remaining samples.
//! Explicit-state search over the subset lattice with the real delete as transition.

use serde_json::{json, Value};

use crate::bfs::{self, Sys};
use crate::cli;
use crate::explore::{Ctx, Meta, Report};
use crate::mirror::FileState;
use crate::ops;
use crate::refmodel::*;
use crate::samples;
use crate::scratch;

pub fn meta() -> Meta {
    Meta {
        id: "C08",
        level: "model_checking",
        rule: "explicit-state BFS over the subset lattice: state = .skf content (hidden fields included) of the remaining samples, actions = the real generic_modes::delete of every non-empty proper subset of the current names, the names given in every order (up to three names; file order, reversed and rotated above) (quick: n<=5 and n=7 with single deletions; thorough: n<=6 and the full lattice for n=8), so every subset is reached along every chain; the lattice is explored from the freshly built file and again from the same file after `weed --filter-ambig-as-missing` (stored counts that exclude ambiguous bases); invariant in every state of the fresh lattice: the file equals the model table and the real fresh build of the remaining samples (order kept, rows of deleted-only k-mers gone, stored counts = fresh counts). CLI family: names on the command line vs one-per-line names file (with/without trailing newline, blank line, CRLF line ends, trailing blanks; sample names that contain a space), in place and with -o; refusals (unknown name, all samples) must exit non-zero and leave the file byte-identical. Search paths are re-executed through `ska delete`. The lattice is also explored from a file in which one sample has no k-mer left (the start file weeded with that sample's own sequences): deleting it alone or together with others must leave no row without a base. A names file containing a line that is not valid UTF-8 is refused as a whole.".into(),
        assumptions: vec!["sorted-row canonical form: delete treats rows independently".into()],
        exhaustive_when_uncapped: true, // the declared bounded space (all selections / the whole lattice / all histories up to the depth bound / all interleavings and configurations) is enumerated completely unless capped
    }
}

struct World {
    /// start file is a fresh build (then every state must equal a fresh build of its samples)
    fresh: bool,
    k: usize,
    rc: bool,
    pool: Vec<Vec<Vec<u8>>>,
    paths: Vec<String>,
    max_del: usize,
}

impl World {
    fn idx_of(name: &str) -> usize {
        name[1..].parse().unwrap()
    }
    fn model(&self, names: &[String]) -> Table {
        let smp: Vec<Vec<Vec<u8>>> = names.iter().map(|n| self.pool[World::idx_of(n)].clone()).collect();
        Table::from_samples(self.k, self.rc, names, &smp)
    }
}

impl Sys for World {
    type S = FileState;
    type A = Vec<String>;
    fn actions(&self, s: &FileState) -> Vec<Vec<String>> {
        let n = s.table.names.len();
        let mut v = Vec::new();
        for mask in 1u32..((1u32 << n) - 1) {
            if (mask.count_ones() as usize) <= self.max_del {
                let inorder: Vec<String> = (0..n).filter(|i| mask & (1 << i) != 0).map(|i| s.table.names[i].clone()).collect();
                // the names may be given in any order: all orders up to three names, file order / reversed / rotated above
                if inorder.len() <= 3 {
                    for p in crate::enumerate::permutations(inorder.len()) {
                        v.push(p.iter().map(|i| inorder[*i].clone()).collect());
                    }
                } else {
                    let mut rev = inorder.clone();
                    rev.reverse();
                    let mut rot = inorder.clone();
                    rot.rotate_left(1);
                    v.push(inorder);
                    v.push(rev);
                    v.push(rot);
                }
            }
        }
        v
    }
    fn step(&self, s: &FileState, a: &Vec<String>) -> Result<Option<FileState>, String> {
        let inp = scratch::path("c08_in.skf");
        let out = scratch::path("c08_out.skf");
        s.write_rot(&inp, s.natural_rot());
        let _ = std::fs::remove_file(&out);
        let remaining: Vec<String> = s.table.names.iter().filter(|n| !a.contains(n)).cloned().collect();
        // documented effect on the plain table (for a fresh start this is the build of the remaining samples)
        let want = if self.fresh { self.model(&remaining) } else { s.table.delete(a) };
        match ops::op_delete(&inp, a, &out).and_then(|_| FileState::read(&out)) {
            Err(e) => Err(format!("delete {a:?} failed: {}", e.chars().take(160).collect::<String>())),
            Ok(n) => {
                if n.table.names != remaining {
                    return Err(format!("after deleting {a:?} the names are {:?}, expected {:?}", n.table.names, remaining));
                }
                if n.table != want {
                    let extra: Vec<&String> = n.table.rows.keys().filter(|k| !want.rows.contains_key(*k)).take(3).collect();
                    let missing: Vec<&String> = want.rows.keys().filter(|k| !n.table.rows.contains_key(*k)).take(3).collect();
                    let wrong: Vec<&String> = want.rows.iter().filter(|(k, v)| n.table.rows.get(*k).map_or(false, |x| x != *v)).map(|(k, _)| k).take(3).collect();
                    return Err(format!("after deleting {a:?} the table differs from the build of {remaining:?}: extra {extra:?} missing {missing:?} wrong {wrong:?}"));
                }
                Ok(Some(n))
            }
        }
    }
    fn invariant(&self, s: &FileState) -> Result<(), String> {
        if !self.fresh {
            // a file with a history: no all-gap rows may be stored (content is checked per transition)
            if s.table.rows.values().any(|r| r.iter().all(|b| *b == b'-')) {
                return Err("a row with no base at all is stored".into());
            }
            return Ok(());
        }
        // equals a real fresh build of the remaining samples, hidden counts included
        let names = &s.table.names;
        let paths: Vec<String> = names.iter().map(|n| self.paths[World::idx_of(n)].clone()).collect();
        let out = scratch::path("c08_fresh.skf");
        ops::op_build(names, &paths, self.k, self.rc, &out).map_err(|e| format!("MACHINERY fresh build failed: {e}"))?;
        let fresh = FileState::read(&out)?;
        if fresh.table != s.table {
            return Err(format!("file with samples {names:?} differs from a fresh build of them"));
        }
        if fresh.counts != s.counts {
            return Err(format!("stored counts {:?} differ from those of a fresh build {:?}", s.counts, fresh.counts));
        }
        Ok(())
    }
    fn describe(&self, s: &FileState) -> Value {
        json!({"names": s.table.names, "rows": s.table.rows.len()})
    }
}

fn cli_family(ctx: &Ctx, rep: &mut Report, idx: &mut u64) {
    for (k, rc) in [(7usize, true), (33, true), (31, false)] {
        let pool = samples::pool(k, ctx.seed);
        let n = 4;
        let names = samples::names(n);
        let dir = scratch::path(&format!("c08cli{k}"));
        let _ = std::fs::create_dir_all(&dir);
        let paths: Vec<String> = (0..n).map(|i| scratch::write(&format!("c08c_s{i}.fa"), &scratch::fasta(&pool[i]))).collect();
        let orig = format!("{dir}/orig.skf");
        if ops::op_build(&names, &paths, k, rc, &orig).is_err() {
            rep.machinery("C08 cli: build failed".into());
            continue;
        }
        let w = World { fresh: true, k, rc, pool: pool.clone(), paths: paths.clone(), max_del: 8 };
        for mask in 1u32..15 {
            let mut del: Vec<String> = (0..n).filter(|i| mask & (1 << i) != 0).map(|i| names[i].clone()).collect();
            if mask % 2 == 1 {
                del.reverse(); // names need not be given in file order
            }
            let remaining: Vec<String> = names.iter().filter(|x| !del.contains(x)).cloned().collect();
            let want = w.model(&remaining);
            // routes: names on the command line; names file variants; in place or -o
            let variants: Vec<(&str, Option<String>)> = vec![
                ("args", None),
                ("file", Some(del.join("\n") + "\n")),
                ("file-no-trailing-newline", Some(del.join("\n"))),
                ("file-blank-line", Some(del.join("\n\n") + "\n")),
                ("file-crlf", Some(del.join("\r\n") + "\r\n")),
                ("file-trailing-space", Some(del.join(" \n") + " \n")),
            ];
            for (vname, content) in variants {
                for inplace in [true, false] {
                    *idx += 1;
                    if !ctx.mine(*idx) {
                        continue;
                    }
                    rep.evaluations += 1;
                    rep.nontrivial += 1;
                    rep.corner(&format!("cli_{vname}"));
                    let work = format!("{dir}/w.skf");
                    std::fs::copy(&orig, &work).unwrap();
                    scratch::stale(&format!("{dir}/o.skf"));
                    let mut args: Vec<String> = vec!["delete".into(), "-s".into(), "w.skf".into()];
                    if !inplace {
                        args.push("-o".into());
                        args.push("o".into());
                    }
                    if let Some(c) = &content {
                        std::fs::write(format!("{dir}/names.txt"), c).unwrap();
                        args.push("-f".into());
                        args.push("names.txt".into());
                    } else {
                        args.extend(del.iter().cloned());
                    }
                    let av: Vec<&str> = args.iter().map(|s| s.as_str()).collect();
                    let o = cli::run(&av, &dir, None);
                    let res = FileState::read(&if inplace { work.clone() } else { format!("{dir}/o.skf") });
                    let ok = o.code == 0 && res.as_ref().map(|r| &r.table) == Ok(&want);
                    if !ok {
                        let tail: String = String::from_utf8_lossy(&o.stderr).lines().filter(|l| l.contains("panicked") || l.contains("rror")).take(2).collect::<Vec<_>>().join(" / ");
                        rep.violate(
                            format!("cli delete names-route={vname} k={k}"),
                            format!("ska delete of {del:?} ({vname}, {}) exit {}: result differs from the build of {remaining:?}. {tail}", if inplace { "in place" } else { "-o" }, o.code),
                            json!({"cli": true, "k": k, "rc": rc, "delete": del, "route": vname, "inplace": inplace}),
                        );
                    } else {
                        rep.traces_validated += 1;
                    }
                    if !inplace && std::fs::read(&work).ok() != std::fs::read(&orig).ok() {
                        rep.violate(format!("cli delete -o touches input k={k}"), "ska delete -o modified its input file".into(), json!({"cli": true, "k": k, "delete": del}));
                    }
                }
            }
        }
        // refusals leave the file byte-identical
        let refusals: Vec<(&str, Vec<String>)> = vec![("unknown name", vec!["nosuch".into()]), ("known+unknown", vec!["s1".into(), "nosuch".into()]), ("all samples", names.clone())];
        for (what, del) in refusals {
            for via_file in [false, true] {
                *idx += 1;
                if !ctx.mine(*idx) {
                    continue;
                }
                rep.evaluations += 1;
                rep.nontrivial += 1;
                rep.corner("cli_refusal");
                let work = format!("{dir}/w.skf");
                std::fs::copy(&orig, &work).unwrap();
                let mut args: Vec<String> = vec!["delete".into(), "-s".into(), "w.skf".into()];
                if via_file {
                    std::fs::write(format!("{dir}/names.txt"), del.join("\n") + "\n").unwrap();
                    args.push("-f".into());
                    args.push("names.txt".into());
                } else {
                    args.extend(del.iter().cloned());
                }
                let av: Vec<&str> = args.iter().map(|s| s.as_str()).collect();
                let o = cli::run(&av, &dir, None);
                let same = std::fs::read(&work).ok() == std::fs::read(&orig).ok();
                if via_file && what == "known+unknown" {
                    // a names file whose second line is not valid UTF-8 (a Latin-1 name): it names no sample of the
                    // file, so the request is refused as a whole — a valid first line must not be acted upon
                    let mut bytes = format!("{}\n", names[0]).into_bytes();
                    bytes.extend_from_slice(b"S\xe9rie2\n");
                    bytes.extend_from_slice(format!("{}\n", names[names.len() - 1]).as_bytes());
                    std::fs::write(format!("{dir}/latin1.txt"), &bytes).unwrap();
                    for with_o in [false, true] {
                        std::fs::copy(&orig, &work).unwrap();
                        let _ = std::fs::remove_file(format!("{dir}/lo.skf"));
                        let mut a2 = vec!["delete", "-s", "w.skf", "-f", "latin1.txt"];
                        if with_o {
                            a2.extend(["-o", "lo"]);
                        }
                        let o2 = cli::run(&a2, &dir, None);
                        rep.evaluations += 1;
                        rep.corner("cli_refusal_names_file_not_utf8");
                        let same2 = std::fs::read(&work).ok() == std::fs::read(&orig).ok();
                        let wrote = std::path::Path::new(&format!("{dir}/lo.skf")).exists();
                        if o2.code == 0 || !same2 || wrote {
                            rep.violate(format!("cli delete names file not UTF-8 k={k} -o={with_o}"), format!("ska delete -f with a line that is not valid UTF-8: exit {}, input {}, output file {}", o2.code, if same2 { "unchanged" } else { "CHANGED" }, if wrote { "written" } else { "absent" }), json!({"cli": true, "refusal": "names file not UTF-8", "k": k}));
                        }
                    }
                }
                if o.code == 0 || !same {
                    rep.violate(format!("cli delete refusal {what} via_file={via_file} k={k}"), format!("ska delete with {what}: exit {} and file {}", o.code, if same { "unchanged" } else { "CHANGED" }), json!({"cli": true, "refusal": what, "k": k, "via_file": via_file}));
                }
            }
        }
    }
}

/// sample names that contain a space (they come from file names): command line and names file must agree
fn spaced_names(ctx: &Ctx, rep: &mut Report, idx: &mut u64) {
    for k in [7usize, 33] {
        *idx += 1;
        if !ctx.mine(*idx) {
            continue;
        }
        let pool = samples::pool(k, ctx.seed);
        let dir = scratch::path(&format!("c08sp{k}"));
        let _ = std::fs::create_dir_all(&dir);
        // names with spaces; and files whose extension the builder does not strip (or that have none), so that the sample
        // name IS the name of a file that still lies in the working directory
        // ... and names that differ in case (an upper-case name sorts before every lower-case one byte-wise, not so
        // case-insensitively)
        let fnames = ["sample.fa", "sample A.fa", "other.fna", "x 1.fas", "plain", "ERR1042.fa", "assembly_7.fa", "Sample_B.fa", "sample_a.fa"];
        for (i, f) in fnames.iter().enumerate() {
            std::fs::write(format!("{dir}/{f}"), scratch::fasta(&pool[i])).unwrap();
        }
        let ks = k.to_string();
        let mut a = vec!["build", "-k", &ks, "-o", "sp"];
        a.extend(fnames.iter());
        if cli::run(&a, &dir, None).code != 0 {
            rep.machinery("C08 spaced names: build failed".into());
            continue;
        }
        let orig = match FileState::read(&format!("{dir}/sp.skf")) {
            Ok(s) => s,
            Err(e) => {
                rep.machinery(format!("C08 spaced names: {e}"));
                continue;
            }
        };
        // whatever names the builder derived (file name with or without its extension) are the samples' names
        let names: Vec<String> = orig.table.names.clone();
        if names.len() != fnames.len() || !names.iter().any(|n| n.contains(' ')) {
            rep.machinery(format!("C08 spaced names: unexpected sample names {names:?}"));
            continue;
        }
        if names.iter().any(|n| std::path::Path::new(&format!("{dir}/{n}")).is_file()) {
            rep.corner("sample_name_is_an_existing_file_name");
        }
        for del in [vec![names[1].clone()], vec![names[3].clone(), names[0].clone()], vec![names[0].clone()], vec![names[2].clone()], vec![names[4].clone()], vec![names[3].clone()], vec![names[4].clone(), names[2].clone()], vec![names[5].clone(), names[6].clone()], vec![names[6].clone(), names[5].clone()], vec![names[7].clone(), names[8].clone()], vec![names[8].clone(), names[7].clone(), names[5].clone()], vec![names[0].clone(), names[5].clone(), names[6].clone(), names[7].clone()]] {
            let want = orig.table.delete(&del);
            for via_file in [false, true] {
                rep.evaluations += 1;
                rep.nontrivial += 1;
                rep.corner("cli_names_with_spaces");
                let _ = std::fs::remove_file(format!("{dir}/o.skf"));
                let mut args: Vec<String> = vec!["delete".into(), "-s".into(), "sp.skf".into(), "-o".into(), "o".into()];
                if via_file {
                    std::fs::write(format!("{dir}/names.txt"), del.join("\n") + "\n").unwrap();
                    args.push("-f".into());
                    args.push("names.txt".into());
                } else {
                    args.extend(del.iter().cloned());
                }
                let av: Vec<&str> = args.iter().map(|s| s.as_str()).collect();
                let o = cli::run(&av, &dir, None);
                let got = FileState::read(&format!("{dir}/o.skf"));
                if o.code != 0 || got.as_ref().map(|g| &g.table) != Ok(&want) {
                    rep.violate(
                        format!("cli delete names with spaces via_file={via_file} del={del:?} k={k}"),
                        format!("ska delete of {del:?} ({}) exit {}: result is {:?}, expected names {:?}", if via_file { "names file" } else { "command line" }, o.code, got.as_ref().map(|g| g.table.names.clone()), want.names),
                        json!({"cli": true, "k": k, "delete": del, "via_file": via_file}),
                    );
                }
            }
        }
    }
}

pub fn run(ctx: &Ctx, rep: &mut Report) {
    let thorough = ctx.tier.thorough();
    let cfgs: Vec<(usize, bool, usize, usize)> = if thorough {
        vec![(7, true, 6, 8), (31, true, 5, 8), (33, true, 6, 8), (63, false, 5, 8), (7, true, 8, 8)]
    } else {
        vec![(7, true, 5, 8), (33, true, 4, 8), (31, false, 3, 8), (9, true, 7, 1)]
    };
    let mut idx = 0u64;
    for (ci, (k, rc, n, max_del)) in cfgs.into_iter().enumerate() {
        // whole configurations are distributed over the shards; the CLI family is sharded by case
        idx += 1;
        if ctx.mine(idx) {
            let pool = samples::pool(k, ctx.seed);
            let names = samples::names(n);
            let paths: Vec<String> = (0..n).map(|i| scratch::write(&format!("c08_s{i}.fa"), &scratch::fasta(&pool[i]))).collect();
            let start = scratch::path("c08_start.skf");
            if let Err(e) = ops::op_build(&names, &paths, k, rc, &start) {
                rep.machinery(format!("C08 start build failed: {e}"));
                continue;
            }
            let mut w = World { fresh: true, k, rc, pool, paths, max_del };
            let init = FileState::read(&start).expect("read start");
            let one = Ctx { tier: ctx.tier, seed: ctx.seed, shard: 0, nshards: 1, start: ctx.start, cap_s: ctx.cap_s, part: String::new() };
            let out = bfs::explore(&w, &[init.clone()], n, &one, rep, &format!("k={k} rc={rc} n={n}"), false);
            // the same lattice from a file WITH A HISTORY: written by `weed --filter-ambig-as-missing --min-freq 1/n`,
            // whose stored per-k-mer counts exclude ambiguous bases (same samples, possibly fewer rows)
            {
                let hist = scratch::path("c08_hist.skf");
                let f = FilterSpec { thr: 1, filt: Filt::NoFilter, ambig_missing: true, mask: false, nogap: false };
                if ops::op_weed(&start, &ops::WeedArgs::filter_only(n, &f), &hist).is_ok() {
                    if let Ok(h) = FileState::read(&hist) {
                        let fresh_counts: Vec<usize> = h.table.rows.values().map(|r| r.iter().filter(|b| **b != b'-').count()).collect();
                        if fresh_counts != h.counts {
                            rep.corner("start_file_with_stale_stored_counts");
                        }
                        w.fresh = false;
                        let _ = bfs::explore(&w, &[h], n, &one, rep, &format!("k={k} rc={rc} n={n} after weed --filter-ambig-as-missing"), false);
                    }
                }
            }
            // and from a file in which one sample has no k-mer left: weeded with that sample's own sequences
            if n >= 3 {
                let hist = scratch::path("c08_hist2.skf");
                let wfa = scratch::write("c08_weed_s2.fa", &scratch::fasta(&w.pool[2]));
                if ops::op_weed(&start, &ops::WeedArgs::plain(&wfa, false), &hist).is_ok() {
                    if let Ok(h) = FileState::read(&hist) {
                        let col_empty = h.table.rows.values().all(|r| r[2] == b'-');
                        if col_empty && !h.table.rows.is_empty() {
                            rep.corner("start_file_with_a_sample_without_kmers");
                            w.fresh = false;
                            let _ = bfs::explore(&w, &[h], n, &one, rep, &format!("k={k} rc={rc} n={n} after weeding with sample s2's sequences"), false);
                        }
                    }
                }
            }
            rep.extra.insert(format!("states_cfg{ci}"), json!(out.states));
            if out.states == (1usize << n) - 1 {
                rep.corner("lattice_closed_with_2^n-1_states");
            }
            rep.sample(json!({"config": format!("k={k} rc={rc} n={n} max_deleted_at_once={max_del}"), "states": out.states, "example_path": out.paths.first().map(|p| p.1.clone())}));
        }
        rep.completed.push(format!("k={k} rc={rc} n={n}"));
    }
    cli_family(ctx, rep, &mut idx);
    spaced_names(ctx, rep, &mut idx);
    rep.completed.push("CLI family".into());
}
