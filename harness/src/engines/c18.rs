//! C18 — ska lo indel calls are real and genotyped correctly.

use serde_json::{json, Value};

use super::lo;
use crate::explore::{Ctx, Meta, Report};
use crate::refmodel::*;
use crate::scratch;

pub fn meta() -> Meta {
    Meta {
        id: "C18",
        level: "exploration",
        rule: "planted-indel families through `ska build` + `ska lo` (CLI, --threads 1..4 chosen per case, hash seeds owned by the shim, -m in {0, 0.1, 0.2, 0.5} and one of five -d / -n settings chosen per case — no sample lacks a locus, so none of them may suppress a record): base sequences whose (k-1)-mers are unique on both strands; k in {11,15,21,31}; 1..3 indels exactly 4k apart; lengths 1..10 complete for a single indel and {1,2,k/2,10} for several; the segment is present in the carriers and absent in the others, so every carrier set (every non-trivial subset for n=3,4,5; single/half/all-but-one for n=6,8) covers both polarities (insertion vs deletion relative to the majority); orientations all-forward / alternating. Oracle for EVERY record of every run: before+REF+after (or its reverse complement) is a substring of exactly the samples genotyped 0 and before+ALT+after of exactly those genotyped 1 ('-' = empty allele; 0/1 counts for both), nobody is genotyped for an allele they lack. For the planted families additionally: every record corresponds to one planted indel with its carriers, no indel is reported twice, and the recall is >= 90% over the whole enumerated family and over every sub-family with at least 16 distinct planted positions: each k, each class {single indel, several indels, indel that can be slid by exactly 1-2 positions, by exactly 3-5 positions = homopolymer run / tandem copies, up to three positions found in the base sequence for each (length, slide) pair of a fixed list}, and k x slidable class; counts and misses are reported. A further class puts twin k-mers on the indel branch (U a V U b V with the planted segment across the junction, five base pairs x three lengths: the carriers alone hold both windows and store one ambiguity code for U.V). Two and three indels with the same alleles and the same carriers (the same one or two letters lost at places 4k apart; records that differ in their flanks only). Every (k, length) cell on its own: lengths 1..10 at sixteen positions each, three runs per position, 90% recall per cell. A class next to a sequence end: exactly k-1, k and k+2 bases between the planted segment and the start / the end of a 6k-base sequence, lengths 1, 3, k/2. Cases whose derived samples break (k-1)-mer uniqueness are judged for soundness only. Every planted layout is run once more through the dev-profile build of the same source (arithmetic overflow checks on): same verdict required, a panic there is an overflow the release build silently wraps.".into(),
        assumptions: vec!["release-profile arithmetic: a debug build panics on a usize underflow in read_graph.rs for short deletion paths (DESIGN §2)".into(), "hash seeds: declared finite set".into()],
        exhaustive_when_uncapped: true,
    }
}

#[derive(Clone, Debug)]
pub struct IndelCase {
    pub k: usize,
    pub base: Vec<u8>,
    /// (start, length) of each segment
    pub segs: Vec<(usize, usize)>,
    /// per segment: which samples have it
    pub present: Vec<Vec<bool>>,
    pub flip: Vec<bool>,
}

impl IndelCase {
    pub fn n(&self) -> usize {
        self.flip.len()
    }
    pub fn sample_seq(&self, i: usize) -> Vec<u8> {
        let mut s = Vec::new();
        let mut pos = 0;
        for (si, (st, len)) in self.segs.iter().enumerate() {
            s.extend_from_slice(&self.base[pos..*st]);
            if self.present[si][i] {
                s.extend_from_slice(&self.base[*st..st + len]);
            }
            pos = st + len;
        }
        s.extend_from_slice(&self.base[pos..]);
        s
    }
    pub fn samples(&self) -> Vec<Vec<Vec<u8>>> {
        (0..self.n()).map(|i| vec![if self.flip[i] { rc_str(&self.sample_seq(i)) } else { self.sample_seq(i) }]).collect()
    }
    /// Premise re-checked on the derived samples: within every sample the (k-1)-mers are unique on both strands
    /// (each genome is repeat-free). Equal (k-1)-mers in different samples are natural for indels (a homopolymer
    /// extension shifts the same letters by one coordinate), so no cross-sample condition is imposed here.
    pub fn premise(&self) -> bool {
        for i in 0..self.n() {
            let s = self.sample_seq(i);
            let mut seen = std::collections::BTreeSet::new();
            for w in s.windows(self.k - 1) {
                let r = rc_str(w);
                if r == w {
                    return false;
                }
                let c = if r < w.to_vec() { r } else { w.to_vec() };
                if !seen.insert(c) {
                    return false;
                }
            }
        }
        true
    }
    pub fn json(&self, seed: u64) -> Value {
        json!({"k": self.k, "base": String::from_utf8_lossy(&self.base), "segs": self.segs, "present": self.present, "flip": self.flip, "hash_seed": seed})
    }
}

fn contains(hay: &[u8], needle: &[u8]) -> bool {
    needle.is_empty() || hay.windows(needle.len()).any(|w| w == needle)
}

/// soundness of one record against the true sample sequences; returns the planted segment it corresponds to
pub fn judge_record(c: &IndelCase, r: &lo::IndelRecord) -> Result<Option<usize>, String> {
    let n = c.n();
    if r.gts.len() != n {
        return Err(format!("{} genotype columns for {n} samples", r.gts.len()));
    }
    let allele = |a: &str| -> Vec<u8> { if a == "-" { vec![] } else { a.as_bytes().to_vec() } };
    let refseq: Vec<u8> = [r.before.as_bytes(), &allele(&r.ref_allele), r.after.as_bytes()].concat();
    let altseq: Vec<u8> = [r.before.as_bytes(), &allele(&r.alt_allele), r.after.as_bytes()].concat();
    let has = |i: usize, s: &[u8]| {
        let smp = c.sample_seq(i);
        contains(&smp, s) || contains(&smp, &rc_str(s))
    };
    for i in 0..n {
        let (has_ref, has_alt) = (has(i, &refseq), has(i, &altseq));
        let g = r.gts[i].as_str();
        let (want_ref, want_alt) = match g {
            "0" => (true, false),
            "1" => (false, true),
            "0/1" => (true, true),
            "." => (false, false),
            other => return Err(format!("unknown genotype {other}")),
        };
        if g != "." && ((want_ref && !has_ref) || (want_alt && !has_alt)) {
            return Err(format!("sample {i} is genotyped {g} but does not carry that allele (record REF={} ALT={} before={} after={})", r.ref_allele, r.alt_allele, r.before, r.after));
        }
        if (has_ref && !want_ref) || (has_alt && !want_alt) {
            return Err(format!("sample {i} carries {} but is genotyped {g} (record REF={} ALT={} before={} after={})", if has_ref && !want_ref { "before+REF+after" } else { "before+ALT+after" }, r.ref_allele, r.alt_allele, r.before, r.after));
        }
    }
    // which planted segment? the one whose carriers are the samples holding the longer allele
    let longer_is_ref = allele(&r.ref_allele).len() > allele(&r.alt_allele).len();
    let with_segment: Vec<bool> = (0..n).map(|i| if longer_is_ref { r.gts[i] == "0" } else { r.gts[i] == "1" }).collect();
    let dl = allele(&r.ref_allele).len().abs_diff(allele(&r.alt_allele).len());
    let cands: Vec<usize> = c.segs.iter().enumerate().filter(|(si, (_, len))| *len == dl && c.present[*si] == with_segment).map(|(si, _)| si).collect();
    if cands.len() <= 1 {
        return Ok(cands.first().copied());
    }
    // several planted indels of this length with these carriers: the record's flanks say which one it is — the longer
    // allele with its flanks lies in the base sequence (all segments present) across exactly one of them
    let longer = if longer_is_ref { &refseq } else { &altseq };
    let find = |hay: &[u8], needle: &[u8]| -> Option<usize> { if needle.is_empty() || hay.len() < needle.len() { None } else { (0..=hay.len() - needle.len()).find(|i| &hay[*i..*i + needle.len()] == needle) } };
    let span = find(&c.base, longer).or_else(|| find(&c.base, &rc_str(longer))).map(|o| (o, o + longer.len()));
    Ok(span.and_then(|(a, b)| cands.iter().copied().find(|si| c.segs[*si].0 >= a && c.segs[*si].0 + c.segs[*si].1 <= b)))
}

/// returns (planted indels, reported-and-matched indels) for recall; Err = violation
pub fn check(c: &IndelCase, seed: u64, dir: &str) -> Result<(usize, usize), String> {
    // every sample holds every locus, so no allowed fraction of missing samples (0 included) may suppress a record;
    // the value is derived from the case so that a replay uses the same one
    let m = ["0.2", "0", "0.1", "0.5"][(crate::explore::hash64(&(&c.segs, &c.present)) % 4) as usize];
    // thread count 1..4, derived from the case as well
    let threads = 1 + (crate::explore::hash64(&(&c.present, &c.segs, c.k)) % 4) as usize;
    // -d and -n do not matter for isolated indels either: one of five settings per case
    let extras: [Vec<&str>; 5] = [vec!["-m", m], vec!["-m", m, "-d", "1"], vec!["-m", m, "-d", "9"], vec!["-m", m, "-n", "0"], vec!["-m", m, "-n", "7", "-d", "4"]];
    let extra: &[&str] = &extras[(crate::explore::hash64(&(&c.segs, c.k, &c.present)) % 5) as usize];
    let o = lo::run_lo(dir, c.k, &c.samples(), None, extra, threads, Some(seed))?;
    let premise = c.premise();
    if o.code != 0 {
        // "no entry node" exit: nothing found at all
        return if premise && o.stderr_tail.contains("panicked") { Err(format!("ska lo panicked: {}", o.stderr_tail)) } else { Ok((if premise { c.segs.len() } else { 0 }, 0)) };
    }
    let recs = lo::parse_indels_named(&o.indels_vcf, &lo::sample_names(c.n()))?;
    let mut matched = std::collections::BTreeSet::new();
    for r in &recs {
        let m = judge_record(c, r)?;
        if premise {
            match m {
                Some(si) => {
                    if !matched.insert(si) {
                        return Err(format!("planted indel {si} is reported twice"));
                    }
                }
                None => return Err(format!("record REF={} ALT={} before={} after={} GT={:?} does not correspond to any planted indel with its carriers", r.ref_allele, r.alt_allele, r.before, r.after, r.gts)),
            }
        }
    }
    Ok((if premise { c.segs.len() } else { 0 }, matched.len()))
}

pub fn replay(v: &Value) -> Result<Option<String>, String> {
    let c = IndelCase {
        k: v["k"].as_u64().ok_or("k")? as usize,
        base: v["base"].as_str().ok_or("base")?.as_bytes().to_vec(),
        segs: v["segs"].as_array().ok_or("segs")?.iter().map(|x| (x[0].as_u64().unwrap() as usize, x[1].as_u64().unwrap() as usize)).collect(),
        present: v["present"].as_array().ok_or("present")?.iter().map(|a| a.as_array().unwrap().iter().map(|x| x.as_bool().unwrap()).collect()).collect(),
        flip: v["flip"].as_array().ok_or("flip")?.iter().map(|x| x.as_bool().unwrap()).collect(),
    };
    match check(&c, v["hash_seed"].as_u64().unwrap_or(0), &scratch::path("c18")) {
        Err(e) if e.starts_with("MACHINERY") => Err(e),
        Err(e) => Ok(Some(e)),
        Ok(_) => Ok(None),
    }
}

fn carrier_sets(n: usize, thorough: bool) -> Vec<Vec<bool>> {
    if n <= 5 || (thorough && n == 6) {
        (1u32..((1 << n) - 1)).map(|m| (0..n).map(|i| m & (1 << i) != 0).collect()).collect()
    } else {
        vec![(0..n).map(|i| i == 2).collect(), (0..n).map(|i| i % 2 == 0).collect(), (0..n).map(|i| i != 1).collect(), (0..n).map(|i| i < n / 2).collect()]
    }
}

pub fn run(ctx: &Ctx, rep: &mut Report) {
    let thorough = ctx.tier.thorough();
    let seeds: Vec<u64> = if thorough { (0..4).map(|i| ctx.seed + i).collect() } else { vec![ctx.seed] };
    let dir = scratch::path("c18");
    let mut idx = 0u64;
    let mut planted_total = 0u64;
    let mut found_total = 0u64;
    'all: for k in [11usize, 15, 21, 31] {
        let base = lo::ancestor(16 * k + 12, k, ctx.seed + 18);
        // segment starts exactly 4k apart (measured start to start in the sequence without the segments)
        let starts = [4 * k, 8 * k + 10, 12 * k + 20];
        let mut plans: Vec<Vec<(usize, usize)>> = Vec::new();
        for len in 1..=10usize {
            plans.push(vec![(starts[0], len)]);
        }
        for l in [1usize, 2, k / 2, 10] {
            plans.push(vec![(starts[0], l), (starts[1], 11 - l.min(10))]);
        }
        // indels whose sequence copies the adjacent bases (homopolymer extension, tandem copy): the bubble can be
        // shifted; they are genuine isolated indels shorter than k in repeat-free sequence
        // removing [p, p+len) can be slid left by s positions iff base[p-i] == base[p+len-i] for i = 1..=s
        // (exactly s: the next position to the left and the first one to the right do not continue the pattern).
        // Up to three positions per (length, slide) pair, so that one unlucky position weighs little in its class.
        let find_shiftable = |len: usize, s: usize| -> Vec<usize> {
            let mut v: Vec<usize> = Vec::new();
            for p in 2 * k..base.len() - 2 * k {
                if (1..=s).all(|i| base[p - i] == base[p + len - i]) && base[p - s - 1] != base[p + len - s - 1] && base[p] != base[p + len] && v.last().map_or(true, |q| p >= q + 4) {
                    v.push(p);
                    if v.len() == 3 {
                        break;
                    }
                }
            }
            v
        };
        let mut shiftable: Vec<Vec<(usize, usize)>> = Vec::new();
        let mut far_shiftable: Vec<Vec<(usize, usize)>> = Vec::new();
        for (len, s) in [(1usize, 1usize), (2, 2), (2, 1), (3, 2), (1, 2), (3, 1), (4, 2), (1, 3), (2, 3), (2, 4), (3, 3), (4, 3), (6, 3), (3, 4), (5, 4), (1, 4), (3, 5)] {
            for p in find_shiftable(len, s) {
                if s >= 3 {
                    far_shiftable.push(vec![(p, len)]);
                } else {
                    shiftable.push(vec![(p, len)]);
                }
            }
        }
        plans.extend(far_shiftable.iter().cloned());
        plans.extend(shiftable.iter().cloned());
        plans.push(vec![(starts[0], 1), (starts[1], k / 2), (starts[2], 10)]);
        plans.push(vec![(starts[0], 10), (starts[1], 2), (starts[2], 2)]);
        let all_plans = plans.clone();
        for segs in plans {
            let slidable = shiftable.contains(&segs) || far_shiftable.contains(&segs);
            for n in [3usize, 4, 5, 6, 8] {
                if slidable && !thorough && n > 4 {
                    continue;
                }
                let cs = carrier_sets(n, thorough);
                for (ci, carriers) in cs.iter().enumerate() {
                    for alt in [false, true] {
                        if alt && (n > 4 || !thorough && ci % 3 != 0) {
                            continue;
                        }
                        idx += 1;
                        if !ctx.mine(idx) {
                            continue;
                        }
                        let present: Vec<Vec<bool>> = (0..segs.len()).map(|j| cs[(ci + j * 3) % cs.len()].clone()).collect();
                        let _ = carriers;
                        let flip: Vec<bool> = (0..n).map(|i| alt && i % 2 == 1).collect();
                        let c = IndelCase { k, base: base.clone(), segs: segs.clone(), present, flip };
                        for s in &seeds {
                            rep.evaluations += 1;
                            match check(&c, *s, &dir) {
                                Ok((planted, found)) => {
                                    if planted > 0 {
                                        rep.nontrivial += 1;
                                        planted_total += planted as u64;
                                        found_total += found as u64;
                                        let class = if shiftable.contains(&c.segs) { "slidable by 1-2" } else if far_shiftable.contains(&c.segs) { "slidable by 3-5" } else if c.segs.len() > 1 { "several indels" } else { "single indel" };
                                        for sub in [format!("k={k} {class}"), format!("all k, {class}"), format!("k={k}, all classes")] {
                                            let kp = format!("planted[{sub}]");
                                            let kf = format!("reported[{sub}]");
                                            let a = rep.extra.get(&kp).and_then(|v| v.as_u64()).unwrap_or(0);
                                            let b = rep.extra.get(&kf).and_then(|v| v.as_u64()).unwrap_or(0);
                                            rep.extra.insert(kp, json!(a + planted as u64));
                                            rep.extra.insert(kf, json!(b + found as u64));
                                        }
                                        rep.outcome(&(k, &c.segs, &c.present));
                                        if c.present.iter().any(|p| p.iter().filter(|x| **x).count() * 2 == n) {
                                            rep.corner("carriers_exactly_half_of_the_samples");
                                        }
                                        if found < planted {
                                            let km = format!("missed[k={k} segs={:?}]", c.segs);
                                            let a = rep.extra.get(&km).and_then(|v| v.as_u64()).unwrap_or(0);
                                            rep.extra.insert(km, json!(a + (planted - found) as u64));
                                        }
                                    } else {
                                        rep.corner("premise_not_met_(soundness_only)");
                                    }
                                }
                                Err(e) if e.starts_with("MACHINERY") => rep.machinery(e),
                                Err(e) => rep.violate(format!("k={k} segs={:?} present={:?} flip={:?}", c.segs, c.present, c.flip), format!("k={k} n={n} indels {:?} seed {s}: {e}", c.segs), c.json(*s)),
                            }
                        }
                        if rep.evaluations % 500 == 3 {
                            rep.sample(c.json(ctx.seed));
                        }
                        if ctx.expired() {
                            rep.capped = true;
                            break 'all;
                        }
                    }
                }
            }
        }
        // twin k-mers on the branch: U a V U b V (same arms, two middle bases: every carrier stores one ambiguity code for
        // U.V) with the planted segment straddling the junction, so that both twin windows exist in the carriers only
        {
            let h = (k - 1) / 2;
            let arms = lo::ancestor(4 * k, k, ctx.seed + 21);
            let (u, v) = (arms[k..k + h].to_vec(), arms[2 * k + 3..2 * k + 3 + h].to_vec());
            for (a, b) in [(b'A', b'G'), (b'C', b'T'), (b'A', b'C'), (b'T', b'G'), (b'A', b'T')] {
                for half in [1usize, 3, 5] {
                    idx += 1;
                    if !ctx.mine(idx) {
                        continue;
                    }
                    let w: Vec<u8> = [u.as_slice(), &[a], v.as_slice(), u.as_slice(), &[b], v.as_slice()].concat();
                    let tbase: Vec<u8> = [&base[..4 * k], w.as_slice(), &base[4 * k..]].concat();
                    let segs = vec![(4 * k + k - half, 2 * half)];
                    for n in [3usize, 4] {
                        let cs = carrier_sets(n, false);
                        for (ci, carriers) in cs.iter().enumerate() {
                            let c = IndelCase { k, base: tbase.clone(), segs: segs.clone(), present: vec![carriers.clone()], flip: (0..n).map(|i| ci % 2 == 1 && i % 2 == 1).collect() };
                            rep.evaluations += 1;
                            match check(&c, ctx.seed, &dir) {
                                Ok((planted, found)) => {
                                    if planted > 0 {
                                        rep.nontrivial += 1;
                                        planted_total += planted as u64;
                                        found_total += found as u64;
                                        rep.corner("twin_kmers_on_the_branch");
                                        for sub in ["all k, twin k-mers on the branch".to_string(), format!("k={k}, all classes")] {
                                            let (kp, kf) = (format!("planted[{sub}]"), format!("reported[{sub}]"));
                                            let x = rep.extra.get(&kp).and_then(|v| v.as_u64()).unwrap_or(0);
                                            let y = rep.extra.get(&kf).and_then(|v| v.as_u64()).unwrap_or(0);
                                            rep.extra.insert(kp, json!(x + planted as u64));
                                            rep.extra.insert(kf, json!(y + found as u64));
                                        }
                                    } else {
                                        rep.corner("premise_not_met_(soundness_only)");
                                    }
                                }
                                Err(e) if e.starts_with("MACHINERY") => rep.machinery(e),
                                Err(e) => rep.violate(format!("twin k={k} {}{} half={half} present={:?}", a as char, b as char, c.present), format!("k={k} n={n} twin k-mers {}{} around an indel of {} bases: {e}", a as char, b as char, 2 * half), c.json(ctx.seed)),
                            }
                        }
                    }
                }
            }
        }
        // several indels with the SAME alleles and the SAME carriers (the same base, or the same two bases, lost at three
        // places 4k apart): three records that differ only in their flanks
        for len in [1usize, 2] {
            idx += 1;
            if !ctx.mine(idx) {
                continue;
            }
            // positions near 4k, 8k, 12k holding the same `len` letters, none of them slidable
            let fixed = |p: usize| (1..=len).all(|i| base[p - i] != base[p + len - i]) && base[p] != base[p + len];
            let mut found: Option<Vec<usize>> = None;
            'search: for p1 in 3 * k..5 * k {
                if !fixed(p1) {
                    continue;
                }
                let same = |lo: usize, hi: usize| (lo..hi).find(|q| fixed(*q) && base[*q..*q + len] == base[p1..p1 + len]);
                if let (Some(p2), Some(p3)) = (same(p1 + 4 * k, p1 + 6 * k), same(p1 + 8 * k, p1 + 10 * k)) {
                    found = Some(vec![p1, p2, p3]);
                    break 'search;
                }
            }
            let Some(ps) = found else {
                rep.corner("no_three_places_with_the_same_letters");
                continue;
            };
            for n in [3usize, 4, 5] {
                let cs = carrier_sets(n, false);
                for (ci, carriers) in cs.iter().enumerate() {
                    if n == 5 && ci % 4 != 0 {
                        continue;
                    }
                    for m in [2usize, 3] {
                        let c = IndelCase { k, base: base.clone(), segs: ps[..m].iter().map(|p| (*p, len)).collect(), present: vec![carriers.clone(); m], flip: (0..n).map(|i| ci % 2 == 1 && i % 2 == 1).collect() };
                        rep.evaluations += 1;
                        match check(&c, ctx.seed, &dir) {
                            Ok((planted, found)) => {
                                if planted > 0 {
                                    rep.nontrivial += 1;
                                    planted_total += planted as u64;
                                    found_total += found as u64;
                                    rep.corner("indels_with_identical_alleles_and_carriers");
                                    for sub in ["all k, identical alleles and carriers".to_string(), format!("k={k}, all classes")] {
                                        let (kp, kf) = (format!("planted[{sub}]"), format!("reported[{sub}]"));
                                        let x = rep.extra.get(&kp).and_then(|v| v.as_u64()).unwrap_or(0);
                                        let y = rep.extra.get(&kf).and_then(|v| v.as_u64()).unwrap_or(0);
                                        rep.extra.insert(kp, json!(x + planted as u64));
                                        rep.extra.insert(kf, json!(y + found as u64));
                                    }
                                    if found < planted {
                                        let km = format!("missed[k={k} segs={:?} same carriers]", c.segs);
                                        let a = rep.extra.get(&km).and_then(|v| v.as_u64()).unwrap_or(0);
                                        rep.extra.insert(km, json!(a + (planted - found) as u64));
                                    }
                                } else {
                                    rep.corner("premise_not_met_(soundness_only)");
                                }
                            }
                            Err(e) if e.starts_with("MACHINERY") => rep.machinery(e),
                            Err(e) => rep.violate(format!("identical k={k} len={len} m={m} present={:?}", c.present), format!("k={k} n={n} {m} indels of the same {len} letter(s) with the same carriers at {:?}: {e}", &ps[..m]), c.json(ctx.seed)),
                        }
                    }
                }
            }
        }
        // every (k, length) cell on its own: lengths 1..10 at sixteen positions each (a length that is never reported at
        // some k must not hide in the overall figure)
        for len in 1..=10usize {
            for j in 0..16usize {
                idx += 1;
                if !ctx.mine(idx) {
                    continue;
                }
                let p = 2 * k + j * (12 * k / 16) + (len + j) % 3;
                for (n, ci) in [(3usize, (j + len) % 6), (3, (j + len + 3) % 6), (4, (j * 5 + len) % 14)] {
                    let cs = carrier_sets(n, false);
                    let c = IndelCase { k, base: base.clone(), segs: vec![(p, len)], present: vec![cs[ci % cs.len()].clone()], flip: (0..n).map(|i| j % 2 == 1 && i % 2 == 1).collect() };
                    rep.evaluations += 1;
                    match check(&c, ctx.seed, &dir) {
                        Ok((planted, found)) => {
                            if planted > 0 {
                                rep.nontrivial += 1;
                                planted_total += planted as u64;
                                found_total += found as u64;
                                rep.corner("length_cells");
                                for sub in [format!("k={k} length {len}"), format!("k={k}, all classes")] {
                                    let (kp, kf) = (format!("planted[{sub}]"), format!("reported[{sub}]"));
                                    let x = rep.extra.get(&kp).and_then(|v| v.as_u64()).unwrap_or(0);
                                    let y = rep.extra.get(&kf).and_then(|v| v.as_u64()).unwrap_or(0);
                                    rep.extra.insert(kp, json!(x + planted as u64));
                                    rep.extra.insert(kf, json!(y + found as u64));
                                }
                                if found < planted {
                                    let km = format!("missed[k={k} segs={:?}]", c.segs);
                                    let a = rep.extra.get(&km).and_then(|v| v.as_u64()).unwrap_or(0);
                                    rep.extra.insert(km, json!(a + (planted - found) as u64));
                                }
                            } else {
                                rep.corner("premise_not_met_(soundness_only)");
                            }
                        }
                        Err(e) if e.starts_with("MACHINERY") => rep.machinery(e),
                        Err(e) => rep.violate(format!("cell k={k} len={len} p={p} present={:?}", c.present), format!("k={k} n={n} indel of {len} bases at {p}: {e}"), c.json(ctx.seed)),
                    }
                }
            }
        }
        // indels next to a sequence end: exactly k-1, k and k+2 bases between the planted segment and the start / the end of
        // the sequence (k-1: the anchoring (k-1)-mer is the first / last one of the contig)
        for at_start in [true, false] {
            for dist in [k - 1, k, k + 2, k - 2, 3] {
                for len in [1usize, 3, k / 2] {
                    idx += 1;
                    if !ctx.mine(idx) {
                        continue;
                    }
                    let short = base[..6 * k].to_vec();
                    let p = if at_start { dist } else { short.len() - dist - len };
                    for n in [3usize, 4] {
                        let cs = carrier_sets(n, false);
                        for (ci, carriers) in cs.iter().enumerate() {
                            if n == 4 && ci % 3 != (dist + len) % 3 {
                                continue;
                            }
                            let c = IndelCase { k, base: short.clone(), segs: vec![(p, len)], present: vec![carriers.clone()], flip: (0..n).map(|i| ci % 2 == 1 && i % 2 == 1).collect() };
                            rep.evaluations += 1;
                            match check(&c, ctx.seed, &dir) {
                                Ok((planted, found)) => {
                                    if planted > 0 {
                                        rep.nontrivial += 1;
                                        planted_total += planted as u64;
                                        found_total += found as u64;
                                        rep.corner("indel_next_to_a_sequence_end");
                                        let subs = if dist >= k - 1 { vec!["all k, next to a sequence end".to_string(), format!("k={k}, all classes")] } else { vec!["closer than k-1 to a sequence end (overall recall only)".to_string()] };
                                        for sub in subs {
                                            let (kp, kf) = (format!("planted[{sub}]"), format!("reported[{sub}]"));
                                            let x = rep.extra.get(&kp).and_then(|v| v.as_u64()).unwrap_or(0);
                                            let y = rep.extra.get(&kf).and_then(|v| v.as_u64()).unwrap_or(0);
                                            rep.extra.insert(kp, json!(x + planted as u64));
                                            rep.extra.insert(kf, json!(y + found as u64));
                                        }
                                        if found < planted {
                                            let km = format!("missed[k={k} {} bases from the {}, length {len}]", dist, if at_start { "start" } else { "end" });
                                            let a = rep.extra.get(&km).and_then(|v| v.as_u64()).unwrap_or(0);
                                            rep.extra.insert(km, json!(a + (planted - found) as u64));
                                        }
                                    } else {
                                        rep.corner("premise_not_met_(soundness_only)");
                                    }
                                }
                                Err(e) if e.starts_with("MACHINERY") => rep.machinery(e),
                                Err(e) => rep.violate(format!("end k={k} dist={dist} start={at_start} len={len} present={:?}", c.present), format!("k={k} n={n} indel of {len} bases {dist} bases from the {} of the sequence: {e}", if at_start { "start" } else { "end" }), c.json(ctx.seed)),
                            }
                        }
                    }
                }
            }
        }
        // every plan once more through the dev-profile build of the same source (arithmetic overflow checks on): the
        // verdict must be the one of the release build; a panic there is an overflow that the release build wraps
        if crate::cli::debug_exe().is_some() {
            for (pi, segs) in all_plans.iter().enumerate() {
                idx += 1;
                if !ctx.mine(idx) {
                    continue;
                }
                let n = 3 + pi % 2;
                let cs = carrier_sets(n, false);
                let present: Vec<Vec<bool>> = (0..segs.len()).map(|j| cs[(pi + j * 3) % cs.len()].clone()).collect();
                let c = IndelCase { k, base: base.clone(), segs: segs.clone(), present, flip: (0..n).map(|i| pi % 3 == 1 && i % 2 == 1).collect() };
                let rel = check(&c, ctx.seed, &dir);
                crate::cli::set_debug_profile(true);
                let dbg = check(&c, ctx.seed, &dir);
                rep.evaluations += 1;
                rep.nontrivial += 1;
                rep.corner("plan_repeated_with_overflow_checked_build");
                match (&rel, &dbg) {
                    (_, Err(e)) if e.starts_with("MACHINERY") => rep.machinery(e.clone()),
                    (Err(_), _) => {} // the release verdict is reported by the main family
                    (Ok(_), Err(e)) => rep.violate(format!("k={k} segs={:?} present={:?} flip={:?}", c.segs, c.present, c.flip), format!("k={k} n={n} indels {:?}: {e}", c.segs), c.json(ctx.seed)),
                    (Ok(a), Ok(b)) if a != b => rep.violate(format!("profiles differ k={k} segs={:?}", c.segs), format!("k={k} n={n} indels {:?}: {} of {} planted indels reported by the release build, {} by the overflow-checked build", c.segs, a.1, a.0, b.1), c.json(ctx.seed)),
                    _ => {}
                }
                crate::cli::set_debug_profile(false);
                if ctx.expired() {
                    rep.capped = true;
                    break 'all;
                }
            }
        }
        rep.extra.insert(format!("max_plans[k={k} slidable by 1-2]"), json!(shiftable.len()));
        rep.extra.insert(format!("max_plans[k={k} slidable by 3-5]"), json!(far_shiftable.len()));
        rep.completed.push(format!("planted indels k={k}"));
    }
    rep.sample(json!({"k": 15, "segs": [[60, 3]], "present": [[true, false, true, false]], "flip": [false, false, false, false], "oracle": "before+REF+after in exactly the samples genotyped 0, before+ALT+after in exactly those genotyped 1"}));
    rep.extra.insert("planted_indels".into(), json!(planted_total));
    rep.extra.insert("planted_indels_reported".into(), json!(found_total));
}

/// parent-side: recall over the whole enumerated family
pub fn finish(rep: &mut Report) {
    let planted = rep.extra.get("planted_indels").and_then(|v| v.as_u64()).unwrap_or(0);
    let found = rep.extra.get("planted_indels_reported").and_then(|v| v.as_u64()).unwrap_or(0);
    if planted > 0 && !rep.capped {
        let recall = found as f64 / planted as f64;
        rep.extra.insert("recall".into(), json!(recall));
        if recall < 0.9 {
            rep.violate("recall".into(), format!("only {found} of {planted} planted indels are reported ({:.1}% < 90%)", recall * 100.0), json!({"planted": planted, "reported": found}));
        }
        // The statement's 90% is about the whole population of planted indels. It is additionally required of every
        // enumerated sub-family that holds enough *distinct* planted positions for one unlucky position (the code
        // does miss an isolated indel now and then, about 1 position in 200 here) not to decide the verdict:
        // classes and k as marginals, and k x class where at least 16 positions were planted.
        let plans_of = |rep: &Report, sub: &str| -> u64 {
            // sub is "k=K CLASS", "all k, CLASS" or "k=K, all classes"
            let cnt = |key: &str| rep.extra.get(key).and_then(|v| v.as_u64()).unwrap_or(0);
            if let Some(class) = sub.strip_prefix("all k, ") {
                if class.starts_with("slidable") {
                    [11, 15, 21, 31].iter().map(|k| cnt(&format!("max_plans[k={k} {class}]"))).sum()
                } else {
                    40
                }
            } else if sub.ends_with(", all classes") {
                40
            } else if sub.contains(" length ") {
                16 // k x length cells: sixteen positions each
            } else if sub.contains("slidable") {
                cnt(&format!("max_plans[{sub}]"))
            } else {
                0 // k x {single, several}: 10 and 6 positions; judged through the marginals
            }
        };
        let keys: Vec<String> = rep.extra.keys().filter(|k| k.starts_with("planted[")).cloned().collect();
        for kp in keys {
            let sub = kp.trim_start_matches("planted[").trim_end_matches(']').to_string();
            let kf = kp.replacen("planted[", "reported[", 1);
            let p = rep.extra.get(&kp).and_then(|v| v.as_u64()).unwrap_or(0);
            let f = rep.extra.get(&kf).and_then(|v| v.as_u64()).unwrap_or(0);
            if plans_of(rep, &sub) >= 16 && (f as f64) < 0.9 * p as f64 {
                rep.violate(format!("recall {kp}"), format!("{sub}: only {f} of {p} planted indels are reported (< 90%)"), json!({"subfamily": sub, "planted": p, "reported": f}));
            }
        }
    }
}
