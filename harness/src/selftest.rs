//! Model self-test (setup): the reference model is run on the repository's own test
//! inputs and compared with the repository's own expected outputs. A disagreement is a
//! harness bug by construction (exit 2), never a verdict.

use crate::real::parse_fasta;
use crate::refmodel::*;

fn read(p: &str) -> Result<Vec<u8>, String> {
    std::fs::read(p).map_err(|e| format!("{p}: {e}"))
}

pub fn run() -> Result<usize, String> {
    let mut n = 0;
    let base = "/repo/tests";
    let (_, s1) = parse_fasta(&read(&format!("{base}/test_files_in/test_1.fa"))?);
    let (_, s2) = parse_fasta(&read(&format!("{base}/test_files_in/test_2.fa"))?);
    let names = vec!["test_1".to_string(), "test_2".to_string()];
    let t = Table::from_samples(17, true, &names, &[s1.clone(), s2.clone()]);
    // merge_nk.stdout: k-mers=78, sample_kmers=[46, 46]
    let nk = String::from_utf8_lossy(&read(&format!("{base}/test_results_correct/merge_nk.stdout"))?).to_string();
    if !nk.contains(&format!("k-mers={}", t.rows.len())) || !nk.contains(&format!("sample_kmers={:?}", t.sample_counts())) {
        return Err(format!("model table of test_1/test_2 has {} rows, counts {:?}; expected\n{nk}", t.rows.len(), t.sample_counts()));
    }
    n += 1;
    // merge.dist.stdout
    let dist = String::from_utf8_lossy(&read(&format!("{base}/test_results_correct/merge.dist.stdout"))?).to_string();
    let want: Vec<&str> = dist.lines().skip(1).collect();
    if t.has_ambig() || t.distance_lines(0) != want {
        return Err(format!("model distance {:?} != expected {:?}", t.distance_lines(0), want));
    }
    n += 1;
    // map against one and two contigs, alignment and VCF relation
    for (reffile, alnfile, vcffile) in [
        ("test_ref.fa", "map_aln.stdout", "map_vcf.stdout"),
        ("test_ref_two_chrom.fa", "map_aln_two_chrom.stdout", "map_vcf_two_chrom.stdout"),
    ] {
        let (rnames, rseqs) = parse_fasta(&read(&format!("{base}/test_files_in/{reffile}"))?);
        let dicts = vec![build(&s1, 17, true), build(&s2, 17, true)];
        let (alns, _) = model_map(&rseqs, &dicts, 17, true, false, false);
        let (_, exp) = parse_fasta(&read(&format!("{base}/test_results_correct/{alnfile}"))?);
        let got: Vec<Vec<u8>> = alns.iter().map(|a| a.concat()).collect();
        if got != exp {
            return Err(format!("model map of {reffile} differs from {alnfile}"));
        }
        n += 1;
        let vcf = String::from_utf8_lossy(&read(&format!("{base}/test_results_correct/{vcffile}"))?).to_string();
        let mut recs = Vec::new();
        for l in vcf.lines() {
            if l.starts_with('#') {
                continue;
            }
            let f: Vec<&str> = l.split('\t').collect();
            let mut alleles = vec![f[3].as_bytes()[0]];
            if f[4] != "." {
                alleles.extend(f[4].split(',').map(|a| a.as_bytes()[0]));
            }
            let ci = rnames.iter().position(|nm| nm.split_whitespace().next().unwrap() == f[0]).ok_or("contig name")?;
            let dec: Vec<u8> = f[9..].iter().map(|g| if *g == "." { b'.' } else { alleles[g.parse::<usize>().unwrap()] }).collect();
            recs.push((ci, f[1].parse::<usize>().unwrap(), f[3].as_bytes()[0], dec));
        }
        if recs != model_vcf(&rseqs, &alns) {
            return Err(format!("model VCF relation differs from {vcffile}"));
        }
        n += 1;
    }
    // code <-> set bijection sanity
    for (c, m) in IUPAC_SETS {
        if code_of(m) != c || set_of(c) != Some(m) || rc_code(rc_code(c)) != c {
            return Err("code bijection broken".into());
        }
    }
    n += 1;
    Ok(n)
}
