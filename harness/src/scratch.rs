//! Per-process scratch directory under /dev/shm (fallback $TMPDIR), removed on exit.

use std::path::{Path, PathBuf};
use std::sync::OnceLock;

static DIR: OnceLock<PathBuf> = OnceLock::new();

fn base() -> PathBuf {
    if let Ok(p) = std::env::var("VERIF_SCRATCH") {
        return PathBuf::from(p);
    }
    let shm = Path::new("/dev/shm");
    if shm.is_dir() {
        shm.to_path_buf()
    } else {
        std::env::temp_dir()
    }
}

pub fn dir() -> &'static Path {
    DIR.get_or_init(|| {
        let d = base().join(format!("skaverif.{}", std::process::id()));
        std::fs::create_dir_all(&d).expect("cannot create scratch dir");
        d
    })
}

pub fn path(name: &str) -> String {
    dir().join(name).to_str().unwrap().to_string()
}

pub fn cleanup() {
    if std::env::var("VERIF_KEEP_SCRATCH").is_ok() {
        return;
    }
    if let Some(d) = DIR.get() {
        let _ = std::fs::remove_dir_all(d);
    }
}

pub fn write(name: &str, content: &[u8]) -> String {
    let p = path(name);
    std::fs::write(&p, content).expect("scratch write");
    p
}

/// FASTA text for records named r0, r1, ...
pub fn fasta(records: &[Vec<u8>]) -> Vec<u8> {
    let mut out = Vec::new();
    for (i, r) in records.iter().enumerate() {
        out.extend_from_slice(format!(">r{i}\n").as_bytes());
        out.extend_from_slice(r);
        out.push(b'\n');
    }
    out
}

pub fn fasta_named(records: &[(String, Vec<u8>)]) -> Vec<u8> {
    let mut out = Vec::new();
    for (n, r) in records.iter() {
        out.extend_from_slice(format!(">{n}\n").as_bytes());
        out.extend_from_slice(r);
        out.push(b'\n');
    }
    out
}

/// FASTA text in one of four layouts (records r0, r1, ...): 0 = one line each, LF; 1 = lines of 5, LF, all records under the same identifier;
/// 2 = lines of 4, CRLF; 3 = one line, CRLF, descriptions in the headers, no final line end.
pub fn fasta_layout(records: &[Vec<u8>], layout: u64) -> Vec<u8> {
    let (width, eol): (usize, &[u8]) = match layout % 4 {
        0 => (usize::MAX, b"\n"),
        1 => (5, b"\n"),
        2 => (4, b"\r\n"),
        _ => (usize::MAX, b"\r\n"),
    };
    let mut out = Vec::new();
    for (i, r) in records.iter().enumerate() {
        if layout % 4 == 3 {
            out.extend_from_slice(format!(">r{i} len={} some text", r.len()).as_bytes());
        } else if layout % 4 == 1 {
            // every record under the same identifier (first word of the header)
            out.extend_from_slice(format!(">rec copy {i}").as_bytes());
        } else {
            out.extend_from_slice(format!(">r{i}").as_bytes());
        }
        out.extend_from_slice(eol);
        if r.is_empty() {
            continue;
        }
        for chunk in r.chunks(width.min(r.len())) {
            out.extend_from_slice(chunk);
            out.extend_from_slice(eol);
        }
    }
    if layout % 4 == 3 && !records.is_empty() && !records.last().unwrap().is_empty() {
        for _ in 0..eol.len() {
            out.pop();
        }
    }
    out
}

/// layout derived from the content, so that the same records are always written the same way
pub fn natural_layout(records: &[Vec<u8>]) -> u64 {
    crate::explore::hash64(&records)
}

/// Put a long stale file where a command is about to write its output: an output file that already exists must be
/// replaced, not overwritten from the start (its old tail would survive a shorter result).
pub fn stale(path: &str) {
    let mut junk = Vec::with_capacity(70_000);
    let mut i = 0;
    while junk.len() < 65_536 {
        junk.extend_from_slice(format!(">STALE_{i}\nACGTSTALEACGTSTALEACGTSTALEACGTSTALE\n").as_bytes());
        i += 1;
    }
    let _ = std::fs::write(path, &junk);
}

/// gzip of `data` as one member
pub fn gz(data: &[u8]) -> Vec<u8> {
    use std::io::Write;
    let mut e = flate2::write::GzEncoder::new(Vec::new(), flate2::Compression::default());
    e.write_all(data).unwrap();
    e.finish().unwrap()
}

/// gzip of a text file as TWO members (as `cat lane1.gz lane2.gz` gives), cut behind the line nearest to the middle that
/// ends a group of `lines_per_record` lines
pub fn gz_two_members(text: &[u8], lines_per_record: usize) -> Vec<u8> {
    let ends: Vec<usize> = text.iter().enumerate().filter(|(_, b)| **b == b'\n').map(|(i, _)| i + 1).collect();
    let records = ends.len() / lines_per_record.max(1);
    if records < 2 {
        return gz(text);
    }
    let cut = ends[(records / 2) * lines_per_record - 1];
    let mut out = gz(&text[..cut]);
    out.extend(gz(&text[cut..]));
    out
}
