//! serde mirror of the .skf layout (CBOR inside snappy frames): reads *all* fields,
//! including the hidden `variant_count`, `k_bits`, `ska_version`, and can forge files.

use ndarray::Array2;
use serde::{de::DeserializeOwned, Deserialize, Serialize};
use std::collections::BTreeMap;
use std::fs::File;
use std::io::{BufReader, BufWriter, Read, Write};

use crate::refmodel::Table;

#[derive(Serialize, Deserialize, Clone, Debug, PartialEq)]
pub struct Mirror<T> {
    pub k: usize,
    pub rc: bool,
    pub names: Vec<String>,
    pub split_kmers: Vec<T>,
    pub variants: Array2<u8>,
    pub variant_count: Vec<usize>,
    pub ska_version: String,
    pub k_bits: u32,
}

pub trait KInt: Copy + Ord + Serialize + DeserializeOwned + std::fmt::Debug + std::hash::Hash {
    const BITS: u32;
    fn to_u128(self) -> u128;
    fn from_u128(x: u128) -> Self;
}
impl KInt for u64 {
    const BITS: u32 = 64;
    fn to_u128(self) -> u128 {
        self as u128
    }
    fn from_u128(x: u128) -> Self {
        x as u64
    }
}
impl KInt for u128 {
    const BITS: u32 = 128;
    fn to_u128(self) -> u128 {
        self
    }
    fn from_u128(x: u128) -> Self {
        x
    }
}

/// letters for the 2-bit codes, independent re-statement (A=0, C=1, T=2, G=3)
pub const LETTERS: [u8; 4] = *b"ACTG";

pub fn code2(b: u8) -> u128 {
    match b {
        b'A' => 0,
        b'C' => 1,
        b'T' => 2,
        b'G' => 3,
        _ => panic!("code2 of {}", b as char),
    }
}

/// Pack a string of A/C/G/T, first letter most significant
pub fn pack(s: &[u8]) -> u128 {
    let mut x = 0u128;
    for c in s {
        x = (x << 2) | code2(*c);
    }
    x
}

/// Unpack n letters
pub fn unpack(x: u128, n: usize) -> String {
    let mut s = String::with_capacity(n);
    for i in 0..n {
        let sh = 2 * (n - 1 - i);
        s.push(LETTERS[((x >> sh) & 3) as usize] as char);
    }
    s
}

pub fn read_bytes<T: KInt>(bytes: &[u8]) -> Result<Mirror<T>, String> {
    let rdr = snap::read::FrameDecoder::new(bytes);
    ciborium::de::from_reader(rdr).map_err(|e| format!("{e}"))
}

pub fn read_file<T: KInt>(path: &str) -> Result<Mirror<T>, String> {
    let mut f = BufReader::new(File::open(path).map_err(|e| format!("{e}"))?);
    let mut bytes = Vec::new();
    f.read_to_end(&mut bytes).map_err(|e| format!("{e}"))?;
    read_bytes(&bytes)
}

pub fn to_bytes<T: KInt>(m: &Mirror<T>) -> Vec<u8> {
    let mut out = Vec::new();
    {
        let mut w = snap::write::FrameEncoder::new(&mut out);
        ciborium::ser::into_writer(m, &mut w).expect("mirror serialise");
        w.flush().unwrap();
    }
    out
}

pub fn write_file<T: KInt>(m: &Mirror<T>, path: &str) {
    let mut f = BufWriter::new(File::create(path).expect("create skf"));
    f.write_all(&to_bytes(m)).unwrap();
}

/// Content of an .skf including the hidden fields, canonical (rows sorted by key string)
#[derive(Clone, PartialEq, Eq, Hash, Debug, PartialOrd, Ord)]
pub struct FileState {
    pub table: Table,
    /// per row (in key order) stored count
    pub counts: Vec<usize>,
    pub k_bits: u32,
    pub version: String,
}

impl<T: KInt> Mirror<T> {
    pub fn to_state(&self) -> Result<FileState, String> {
        let n = self.names.len();
        if self.variants.ncols() != n && self.variants.nrows() > 0 {
            return Err(format!("variants has {} columns for {} names", self.variants.ncols(), n));
        }
        if self.variants.nrows() != self.split_kmers.len() || self.variant_count.len() != self.split_kmers.len() {
            return Err(format!(
                "parallel vectors out of step: kmers={} rows={} counts={}",
                self.split_kmers.len(),
                self.variants.nrows(),
                self.variant_count.len()
            ));
        }
        let mut rows: BTreeMap<String, (Vec<u8>, usize)> = BTreeMap::new();
        for (i, km) in self.split_kmers.iter().enumerate() {
            let key = unpack(km.to_u128(), self.k - 1);
            let row: Vec<u8> = self.variants.row(i).to_vec();
            if rows.insert(key.clone(), (row, self.variant_count[i])).is_some() {
                return Err(format!("duplicate split k-mer {key}"));
            }
        }
        let counts = rows.values().map(|v| v.1).collect();
        let table = Table {
            k: self.k,
            rc: self.rc,
            names: self.names.clone(),
            rows: rows.into_iter().map(|(k, v)| (k, v.0)).collect(),
        };
        Ok(FileState { table, counts, k_bits: self.k_bits, version: self.ska_version.clone() })
    }

    pub fn from_state(s: &FileState) -> Mirror<T> {
        Self::from_state_rot(s, 0)
    }

    /// rows stored in key order rotated by `rot` (row order carries no meaning; varying it exercises
    /// position-dependent code deterministically)
    pub fn from_state_rot(s: &FileState, rot: usize) -> Mirror<T> {
        let n = s.table.names.len();
        let nr = s.table.rows.len();
        let mut variants = Array2::<u8>::zeros((nr, n));
        let mut kmers = Vec::with_capacity(nr);
        let mut counts = Vec::with_capacity(nr);
        let rows: Vec<(&String, &Vec<u8>)> = s.table.rows.iter().collect();
        for i in 0..nr {
            let src = if nr == 0 { 0 } else { (i + rot) % nr };
            let (key, row) = rows[src];
            kmers.push(T::from_u128(pack(key.as_bytes())));
            counts.push(s.counts[src]);
            for (j, b) in row.iter().enumerate() {
                variants[[i, j]] = *b;
            }
        }
        Mirror {
            k: s.table.k,
            rc: s.table.rc,
            names: s.table.names.clone(),
            split_kmers: kmers,
            variants,
            variant_count: counts,
            ska_version: s.version.clone(),
            k_bits: s.k_bits,
        }
    }
}

impl FileState {
    /// A freshly built file with this logical content: counts = non-gap count, real width and version
    pub fn fresh(table: Table) -> FileState {
        let counts = table.rows.values().map(|r| r.iter().filter(|b| **b != b'-').count()).collect();
        let k_bits = if table.k <= 31 { 64 } else { 128 };
        FileState { table, counts, k_bits, version: "0.4.0".to_string() }
    }
    pub fn write(&self, path: &str) {
        self.write_rot(path, 0)
    }
    pub fn write_rot(&self, path: &str, rot: usize) {
        if self.k_bits == 64 {
            write_file(&Mirror::<u64>::from_state_rot(self, rot), path)
        } else {
            write_file(&Mirror::<u128>::from_state_rot(self, rot), path)
        }
    }
    /// a rotation derived from the content, so that the same state is always written the same way
    pub fn natural_rot(&self) -> usize {
        let n = self.table.rows.len();
        if n == 0 {
            0
        } else {
            (crate::explore::hash64(&self.table.rows.keys().collect::<Vec<_>>()) % n as u64) as usize
        }
    }
    pub fn read(path: &str) -> Result<FileState, String> {
        match read_file::<u64>(path) {
            Ok(m) if m.k_bits == 64 => m.to_state(),
            _ => read_file::<u128>(path)?.to_state(),
        }
    }
}
