#!/usr/bin/env python3
"""Detection demonstration: apply each hand-written mutation of DESIGN.md §8 to /repo (working tree only),
run the quick tier of the checks that should notice, record the verdict, and restore /repo.

  tools/mutations.py [name-substring ...]      (never run while a `vp run` uses /repo)

Writes /verif/notes/mutation_results.json.
"""
import json, os, subprocess, sys

REPO = os.environ.get("MUT_REPO", "/repo")
ROOT = os.path.dirname(os.path.dirname(os.path.abspath(__file__)))

# name, file, old, new, checks expected to report a violation
M = [
 ("aln_writer next_pos off by one", "src/ska_ref/aln_writer.rs", "self.next_pos = mapped_pos + self.half_split_len + 1;", "self.next_pos = mapped_pos + self.half_split_len;", ["C04"]),
 ("aln_writer fill_contig skips overhang", "src/ska_ref/aln_writer.rs", "        self.fill_fwd_bases(chrom_length);\n", "", ["C04"]),
 ("aln_writer last_written not updated in fill", "src/ska_ref/aln_writer.rs", "                self.last_written = end;\n", "", ["C04"]),
 ("aln_writer overhang from last_written", "src/ska_ref/aln_writer.rs", "(self.last_mapped + self.half_split_len).saturating_sub(self.last_written)", "(self.last_written + self.half_split_len).saturating_sub(self.last_written)", ["C04"]),
 ("map strand correction dropped", "src/ska_ref.rs", "true => RC_IUPAC[*x as usize],", "true => *x,", ["C04", "C15"]),
 ("vcf position zero based", "src/ska_ref.rs", "Position::from(map_pos + 1)", "Position::from(map_pos.max(1))", ["C05"]),
 ("idx_check contig switch off by one", "src/ska_ref/idx_check.rs", "&& self.idx >= self.end_coor[self.current_chr]", "&& self.idx > self.end_coor[self.current_chr]", ["C05"]),
 ("vcf alt allele numbering", "src/ska_ref.rs", "(alt_bases.iter().position(|&r| r == alt_base).unwrap() + 1).to_string()", "alt_bases.len().to_string()", ["C05"]),
 ("filter count strictly greater", "src/merge_ska_array.rs", "if *count >= min_count {", "if *count > min_count || min_count == 0 {", ["C06", "C10"]),
 ("filter keeps kmers unconditionally", "src/merge_ska_array.rs", "                    if update_kmers {\n                        filtered_kmers.push(*kmer);\n                    }", "                    filtered_kmers.push(*kmer);", []),
 ("no-const ignores gaps always", "src/merge_ska_array.rs", "if !ignore_const_gaps || *var != b'-' {", "if *var != b'-' {", ["C06"]),
 ("extend pads with wrong count", "src/merge_ska_dict.rs", "self_vec.extend(vec![0; other.nsamples()]);", "self_vec.extend(vec![0; self.n_samples]);", ["C07"]),
 ("delete without recount", "src/merge_ska_array.rs", "        self.names = new_names;\n        self.update_counts(false);", "        self.names = new_names;", ["C08", "C10"]),
 ("save writes wrong k_bits", "src/merge_ska_array.rs", "            k_bits: IntT::n_bits(),", "            k_bits: 64,", ["C09"]),
 ("parallel_append offset at depth 1", "src/merge_ska_dict.rs", "                    top,\n                    offset + split_point,\n                    total_size,\n                    k,\n                    rc,\n                    qual,\n                    proportion_reads,\n                )\n            },\n        );\n        bottom_merge.merge(&mut top_merge);\n        bottom_merge\n    } else {", "                    top,\n                    offset + split_point + (split_point % 2),\n                    total_size,\n                    k,\n                    rc,\n                    qual,\n                    proportion_reads,\n                )\n            },\n        );\n        bottom_merge.merge(&mut top_merge);\n        bottom_merge\n    } else {", ["C11"]),
 ("bloom table threshold off by one", "src/ska_dict/bloom_filter.rs", "self.min_count.cmp(&count)", "(self.min_count + 1).cmp(&count)", ["C12"]),
 ("bloom forward hash only", "src/ska_dict/nthash.rs", "            u64::min(self.fh, rev)", "            let _ = rev;\n            self.fh", ["C12", "C16"]),
 ("middle quality uses wrong position", "src/ska_dict/split_kmer.rs", "Self::valid_qual(self.get_middle_pos(), self.qual, self.min_qual)", "Self::valid_qual(self.index, self.qual, self.min_qual)", ["C12"]),
 ("weed reference always both strands", "src/generic_modes.rs", "            ska_array.rc(),\n            repeat_mask,\n            filter_ambig,", "            true,\n            repeat_mask,\n            filter_ambig,", ["C13"]),
 ("distance includes self pair", "src/merge_ska_array.rs", "for j in (i + 1)..self.variants.ncols() {", "for j in i..self.variants.ncols() {", ["C14"]),
 ("distance gap vs gap counts", "src/merge_ska_array.rs", "                if !(*var1 == b'-' && *var2 == b'-') {\n                    mismatches += 1.0;\n                }", "                mismatches += 1.0;", ["C14"]),
 ("RC_IUPAC one cell", "src/ska_dict/bit_encoding.rs", "    b'-', b'-', b'Y', b'S', b'A', b'-', b'B', b'W', b'-', b'R', b'-', b'-', b'-', b'-', b'-',\n    b'-', // 80-95", "    b'-', b'-', b'Y', b'S', b'A', b'-', b'V', b'W', b'-', b'R', b'-', b'-', b'-', b'-', b'-',\n    b'-', // 80-95", ["C15"]),
 ("base_to_prob K weights", "src/ska_dict/bit_encoding.rs", "b'K' => [0.0, 0.0, 0.5, 0.5],", "b'K' => [0.0, 0.5, 0.0, 0.5],", ["C15"]),
 ("nthash reverse rotate", "src/ska_dict/nthash.rs", "^ RC_HASH_LOOKUP[new_base as usize].rotate_left(self.k as u32 - 1),", "^ RC_HASH_LOOKUP[new_base as usize].rotate_left(self.k as u32),", ["C16"]),
 ("rolling rc upper shift", "src/ska_dict/split_kmer.rs", "| (IntT::from_encoded_base(rc_base(new_base))) << (2 * ((half_k * 2) - 1)))", "| (IntT::from_encoded_base(rc_base(new_base))) << (2 * ((half_k * 2) - 2)))", ["C16", "C01"]),
 ("skalo first neighbour only in extremities", "src/skalo/extremities.rs", "for &kmer2 in next_kmers.iter().skip(i + 1) {", "for &kmer2 in next_kmers.iter().skip(i + 1).take(1) {", ["C17", "C11"]),
 ("skalo indel REF/ALT swapped bitsets", "src/skalo/process_indels.rs", "let (alt_allele, _alt_count, alt_bitset) = &variants[1];", "let (alt_allele, _alt_count, _) = &variants[1];\n            let alt_bitset = ref_bitset;", ["C18"]),
 ("skalo missing-data filter off", "src/skalo/process_variants.rs", "if true_variant && ratio_missing <= config.max_missing {", "if true_variant {", ["C17"]),
 ("load ignores trailing map keys", "src/merge_ska_array.rs", "#[derive(Serialize, Deserialize)]\npub struct MergeSkaArray<IntT> {", "#[derive(Serialize, Deserialize)]\n#[serde(default)]\npub struct MergeSkaArray<IntT: Default> {", []),
 ("cov table row off by one", "src/coverage.rs", "let kc = (*kmer_count - 1) as usize;", "let kc = *kmer_count as usize;", ["C20"]),
 ("cov gradient missing -1", "src/coverage.rs", "grad_c += *count * (dldb * (i_f64 / c - 1.0));", "grad_c += *count * (dldb * (i_f64 / c));", ["C20"]),
 ("cov label boundary", "src/coverage.rs", "if (idx + 1) < self.cutoff {", "if idx < self.cutoff {", ["C20"]),
 ("cov cutoff starts at zero", "src/coverage.rs", "    let mut cutoff = 1;\n    while cutoff < max_cutoff {", "    let mut cutoff = 2;\n    while cutoff < max_cutoff {", ["C20"]),
 ("case sensitive N test", "src/ska_dict/bit_encoding.rs", "    base & 0xF != 14", "    base != b'N'", ["C01", "C02"]),
 ("palindrome test ignores lower arm", "src/ska_dict/split_kmer.rs", "self.rc && self.upper == self.rc_upper && self.lower == self.rc_lower", "self.rc && self.upper == self.rc_upper", ["C01"]),
 ("IUPAC union drops old base on N", "src/ska_dict.rs", "                    b'N' => b'N',\n                    _ => panic!(\"Palindrome middle base not W/S: {}\", *b as char),", "                    b'N' => b'W',\n                    _ => panic!(\"Palindrome middle base not W/S: {}\", *b as char),", ["C01", "C15"]),
]


def sh(cmd, **kw):
    return subprocess.run(cmd, shell=True, capture_output=True, text=True, **kw)


def main():
    want = sys.argv[1:]
    if sh("git -C %s status --porcelain -- src Cargo.toml" % REPO).stdout.strip():
        print("refusing: /repo has uncommitted changes"); return 2
    results = []
    for name, f, old, new, checks in M:
        if want and not any(w.lower() in name.lower() for w in want):
            continue
        if not checks:
            continue
        path = os.path.join(REPO, f)
        src = open(path).read()
        if src.count(old) != 1:
            results.append({"mutation": name, "error": "pattern occurs %d times" % src.count(old)}); print(name, "PATTERN", src.count(old)); continue
        open(path, "w").write(src.replace(old, new))
        try:
            row = {"mutation": name, "file": f, "checks": {}}
            for c in checks:
                r = sh("./check %s --tier quick" % c, cwd=ROOT)
                verdict = "VIOLATION" if r.returncode == 1 else ("pass" if r.returncode == 0 else "machinery/build")
                first = next((l for l in r.stdout.splitlines() if l.startswith("VIOLATION") or l.startswith("MACHINERY")), "")
                row["checks"][c] = {"verdict": verdict, "first": first[:260]}
                print("%-45s %s %s" % (name, c, verdict))
            results.append(row)
        finally:
            open(path, "w").write(src)
    sh("git -C %s checkout -- ." % REPO)
    sh("rm -rf %s/replays/C*" % ROOT)
    out = os.path.join(ROOT, "notes", "mutation_results.json")
    prev = []
    if os.path.exists(out) and want:
        prev = [r for r in json.load(open(out)) if r["mutation"] not in {x["mutation"] for x in results}]
    json.dump(prev + results, open(out, "w"), indent=1)
    print("wrote", out)


if __name__ == "__main__":
    sys.exit(main())
