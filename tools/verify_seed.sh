#!/bin/bash
# verify_seed.sh <ID> [worktree]  — confirm a seeded change in its scratch worktree:
#   suite passes with the change, demo fails with it and passes without it; then copy to /verif/seeded/<ID>/
ID=$1; WT=${2:-/tmp/seed_$ID}; OUT=/verif/seeded/$ID; LOG=/tmp/seedverify_$ID.log
export CARGO_NET_OFFLINE=true
cd $WT || exit 2
exec > $LOG 2>&1
echo "== $ID in $WT"
git diff -- src Cargo.toml > /tmp/seed_$ID.cur.diff
if ! [ -s /tmp/seed_$ID.cur.diff ]; then echo "no change applied; applying patch.diff"; git apply patch.diff || exit 2; fi
rundemo() {
  if [ -f demo/demo.sh ]; then bash demo/demo.sh >/tmp/seed_$ID.demo.out 2>&1; return $?;
  elif [ -f demo/demo.py ]; then python3 demo/demo.py >/tmp/seed_$ID.demo.out 2>&1; return $?;
  elif [ -f tests/seeded_demo.rs ]; then cargo test --offline --test seeded_demo >/tmp/seed_$ID.demo.out 2>&1; return $?;
  else echo "no demo found"; return 99; fi
}
cargo build --offline 2>&1 | tail -1; cargo build --release --offline 2>&1 | tail -1
cargo test --offline --workspace --no-fail-fast 2>&1 | grep -E "^test result|FAILED|panicked" | grep -v seeded_demo > /tmp/seed_$ID.suite.out
cat /tmp/seed_$ID.suite.out
if [ -f tests/seeded_demo.rs ]; then
  mv tests/seeded_demo.rs /tmp/seeded_demo_$ID.rs
  cargo test --offline --workspace --no-fail-fast 2>&1 | grep -E "^test result|FAILED" > /tmp/seed_$ID.suite.out
  mv /tmp/seeded_demo_$ID.rs tests/seeded_demo.rs
fi
if grep -q FAILED /tmp/seed_$ID.suite.out || grep -q "[1-9][0-9]* failed" /tmp/seed_$ID.suite.out; then SUITE=fail; else SUITE=pass; fi
echo "SUITE_WITH_CHANGE=$SUITE"
rundemo; WITH=$?
echo "DEMO_WITH_CHANGE_EXIT=$WITH"; tail -5 /tmp/seed_$ID.demo.out
# (no git stash: the stash is shared by all worktrees of a repository)
git diff -- src Cargo.toml > /tmp/seed_$ID.restore.diff; git checkout -q -- src Cargo.toml
cargo build --offline 2>&1 | tail -1; cargo build --release --offline 2>&1 | tail -1
rundemo; WITHOUT=$?
echo "DEMO_WITHOUT_CHANGE_EXIT=$WITHOUT"; tail -5 /tmp/seed_$ID.demo.out
git apply /tmp/seed_$ID.restore.diff
if [ "$SUITE" = pass ] && [ $WITH -ne 0 ] && [ $WITH -ne 99 ] && [ $WITHOUT -eq 0 ]; then
  mkdir -p $OUT; git diff -- src Cargo.toml > $OUT/patch.diff
  rm -rf $OUT/demo; [ -d demo ] && cp -r demo $OUT/demo; [ -f tests/seeded_demo.rs ] && mkdir -p $OUT/demo && cp tests/seeded_demo.rs $OUT/demo/
  [ -f NOTES.md ] && cp NOTES.md $OUT/NOTES.md
  echo "CONFIRMED $ID"
else
  echo "NOT CONFIRMED $ID"
fi
