#!/usr/bin/env python3
"""Regenerate /verif/MANIFEST.json from the table below (kept here so the manifest is always valid)."""
import json, os, subprocess
ROOT = os.path.dirname(os.path.dirname(os.path.abspath(__file__)))

# id: (category, technique, level text, level note, design ref)
CHECKS = {
 "C01": ("exploration", "bounded exhaustive input enumeration, real builder vs string/set reference model",
         "Every FASTA record over {A,C,G,T,N} up to a length bound at k=5/7, structured families for all 30 k, forced middle-base collisions, N-restart families and multi-record files are each built by the real SkaDict::new (both widths, both strand modes) and compared entry by entry with the reference model; plus CLI build+nk. Window, restart and table-index errors live in these small spaces, so complete enumeration finds them with certainty.",
         "Trusts the reference model (validated at setup against the repository's expected outputs) and needletail's FASTA parsing; inputs without k-mers may be refused or empty.", "DESIGN.md §5 C01"),
 "C02": ("exploration", "bounded exhaustive metamorphic enumeration on the real builder (no oracle needed)",
         "For every input of the families and every transformation in the statement (all subsets of records reverse-complemented, all record permutations, all case masks, all line widths, gzip, all sample permutations) the real dictionary of the transformed file equals that of the original.",
         "Relation is checked between two runs of the real code; refusal = empty dictionary.", "DESIGN.md §5 C02"),
 "C16": ("exploration", "bounded exhaustive enumeration of packed k-mers and rolling windows against a string-level model",
         "Complete for k<=11 (13 thorough); for every k and width all strings within Hamming distance 2 of six backgrounds isolate each 2-bit lane, mask and shift constant; rolling state is compared with the model and a from-scratch object at every window, with N at every position.",
         "Packing convention (A,C,T,G = 0..3, first letter most significant) restated independently in the harness.", "DESIGN.md §5 C16"),
 "C03": ("exploration", "bounded exhaustive enumeration of planted-SNP sample sets (site subsets on a boundary-exact grid x allele assignments x orientations x contig layouts), real build+align vs planted truth",
         "The grid places sites exactly (k-1)/2 from contig ends and exactly (k-1)/2+1 apart, so the boundary cases of the premise are hit in every subset; all allele assignments for 2..4 samples, 10-sample patterns, orientations and contig layouts (incl. a contig of length exactly k) are enumerated for 7 (thorough: 30) values of k. The premise is re-checked by the model on the derived samples so a case outside it is never judged.",
         "End-to-end through build_and_merge, MergeSkaArray::new, apply_filters and write_fasta in-process, plus CLI routes for names-from-filenames.", "DESIGN.md §5 C03"),
 "C04": ("model_checking", "bounded exhaustive exploration of the alignment writer's operation sequences (every subset of matched centres per reference layout) on the real code, oracle = literal three-way definition",
         "The writer is an incremental state machine whose corner cases depend on gap lengths relative to k and on contig switches; every subset of matched centres over all single/pair/triple contig layouts with lengths around k drives it through every reachable call sequence, and every run is the real RefSka::new+map+write_aln compared with the model. Level B enumerates every reference string up to length 7/8 and structured repeat/short-contig/N/case references.",
         "Samples are forged dictionaries (public build_from_array); one forked child per run; contig lengths and k bounded (k=5,7).", "DESIGN.md §5 C04"),
 "C05": ("exploration", "bounded exhaustive enumeration of the C04 input families; relation between the real VCF and the real alignment of the same run",
         "For every case both real outputs are produced and the record/REF/genotype relation of the statement is evaluated between them and the upper-cased reference, so the verdict does not depend on the C04 model; coordinates across contig boundaries, allele numbering with several alleles and non-ACGT characters are all reached by the enumeration.",
         "Quick tier leaves the k=7 writer family and length-7 self maps to C04/thorough (each case costs two forked runs).", "DESIGN.md §5 C05"),
 "C06": ("exploration", "bounded exhaustive enumeration of forged tables x all filter settings, real filter/align vs the row predicate of the statement",
         "Rows are independent in every filter, so all rows over the 16-symbol alphabet (1..3 samples), all ordered pairs/triples of representative rows (alignment of the parallel vectors under removal) and pattern rows up to 12 samples, each under all 4x2x2x2 settings and every threshold, cover the predicate completely for the row and the bookkeeping for the table.",
         "Forged tables enter through the public MergeSkaDict::build_from_array/MergeSkaArray::new; all-gap rows excluded as unreachable.", "DESIGN.md §5 C06"),
 "C07": ("model_checking", "explicit-state search (level-synchronous BFS with state de-duplication) over pools of .skf files, real merge as transition function, invariant = model joint table + real joint build",
         "All ordered sample lists are built, then every ordered selection of 2..4 disjoint files is merged by the real function and the result is a new state unless its full content (hidden fields included) equals a known one; the search closes exactly when merged files are indistinguishable from built files. Every partition/order/nesting for n<=5 is covered, at both integer widths and the 31/33 boundary.",
         "Canonical (row-sorted) states; guarded by re-running merge trees through the CLI. Refusals are checked through the CLI.", "DESIGN.md §5 C07"),
 "C08": ("model_checking", "explicit-state BFS over the subset lattice with the real delete as transition function; invariant = model table + real fresh build incl. stored counts",
         "From the full file every non-empty proper subset is deleted, from every reached state again, so each of the 2^n-1 sample sets is reached along every chain and compared with a fresh build; the CLI family enumerates both ways of passing names, in-place/-o and the refusals (file must stay byte-identical).",
         "Canonical (row-sorted) states; CLI family is an enumeration of routes, not a search.", "DESIGN.md §5 C08"),
 "C09": ("exploration", "bounded exhaustive configuration enumeration (all 30 k x strand modes x input families incl. 'fits in 64 bits') through the CLI, every subcommand on the saved file vs model",
         "The width decision is a function of (k, the stored k-mers); enumerating every k with families that do and do not fit in 64 bits, and running every subcommand plus merges in both orders on the saved file, decides width independence; stored fields are read back with an independent decoder.",
         "Model stands in for the in-memory data; ska lo at k=33/35 is exercised under C17.", "DESIGN.md §5 C09"),
 "C10": ("model_checking", "explicit-state BFS (depth-bounded, full-content state de-duplication) with the real merge/delete/weed/filter/reload as transitions; invariant = every observer agrees with a reference model that has no hidden state",
         "The state carries the hidden fields, the model does not: any dependence of a later align/map/distance/nk on history shows up as an observer disagreement in some reached state. Histories to depth 3 (quick) / 5 (thorough) at k=7 and depth 2 / 3 at k=33 (128-bit files), from three start tables each, ~140 actions per state.",
         "Depth-bounded, two k (7 and 33), three start tables each; canonicalisation guarded by CLI re-execution of the longest paths (traces_validated_against_impl).", "DESIGN.md §5 C10"),
 "C11": ("model_checking", "explicit-state interleaving model of the only racy structure (DashMap neighbour vectors in skalo::build_graph) with conformance replay in both directions, plus an exhaustive configuration sweep (thread counts x sample counts x subcommands x input kinds x hash seeds) on the real CLI",
         "Schedules: the model enumerates every interleaving of the per-row push operations for 2..4 workers and yields the set R of reachable final graphs; every element of R is forced onto the real graph and run through the real identify_good_kmers/build_variant_groups (same, planted result required), real runs with 1..8 threads must land inside R, and 1-thread runs on permuted rows must equal the model's sequential graph. Configurations: every subcommand that takes --threads, with .skf and sequence-file input, on both sides of every step of the 10-samples-per-thread rule (incl. split depth 3 and 4), thread counts 1..16, two hash seeds, against the 1-thread result.",
         "rayon's own scheduling is not explored (no shared state outside skalo; the sweep would show a difference); DashMap entry operations are taken as atomic; hash seeds are a declared finite set.", "DESIGN.md §5 C11"),
 "C12": ("exploration", "bounded exhaustive enumeration of paired read sets hitting the count and quality thresholds exactly, real builder vs brute-force count model",
         "All multiplicity pairs around the threshold, every split of each multiplicity over the two files/strands, every designated low-quality position and value around --min-qual, under all three rules, min-count 1..6, both strand modes and both widths: the filter's decisions are per k-mer, so these small read sets hit every branch (bloom only, bloom+table, below/at/above) with certainty.",
         "Equality with the model is demanded; a counting-filter collision would show as an extra entry (none expected on these inputs; a larger set bounds the share).", "DESIGN.md §5 C12"),
 "C13": ("exploration", "bounded exhaustive enumeration of weed sets (all windows k..k+4 on a grid, unions, strand/N/case variants) on built files, real weed vs model, plus partition/idempotence relations",
         "Weed-set membership is per k-mer; every window of every sample record (including records of length exactly k) in both orientations, with --reverse on and off, at both widths and the 31/33 boundary decides exact removal, unchanged surviving rows and counts, and idempotence.",
         "--min-freq 0 only; built start files come from the real build.", "DESIGN.md §5 C13"),
 "C14": ("exploration", "bounded exhaustive enumeration of unambiguous tables x thresholds x flags, real distance output vs model, byte-exact",
         "All tables of up to 3 rows over {A,C,G,-}^n for n=2..4, pattern rows to 12 samples, all thresholds, both ambiguity flags, sample permutations: Hamming/Jaccard integers and the bookkeeping of pre-filtered constant sites are decided per pair on every table.",
         "Same formatting of the same single division as the CLI; threads=1 (thread variation is C11's).", "DESIGN.md §5 C14"),
 "C15": ("exploration", "complete enumeration of finite domains (table cells, ordered observation sequences) against a set-algebra reference model, on the real tables and through real build/map",
         "Every cell of both lookup tables, every letter of the classification/weight domains and every ordered sequence of <=4 observations are enumerated (exhaustive: true); the domains are finite so nothing is left to a bound.",
         "Trusts the harness's 15-entry code<->set bijection; U is outside the algebra.", "DESIGN.md §5 C15"),
 "C17": ("exploration", "bounded exhaustive enumeration of planted-SNP families (site subsets on a 2k/2k+1 grid x allele assignments x orientations x reference mode x -m) through the CLI under owned hash seeds, vs planted truth; well-formedness family outside the premise",
         "Every biallelic split for 3..5 samples, triallelic assignments, larger carrier patterns, every subset of a grid whose spacing sits exactly on the premise's boundary, with and without reference, for k up to 33 (the 64/128-bit boundary): completeness without reference, soundness with reference, well-formedness on every run.",
         "One thread (thread counts and schedules are C11's); hash seeds 2 (quick) / 3 (thorough); release-profile arithmetic.", "DESIGN.md §5 C17"),
 "C18": ("exploration", "bounded exhaustive enumeration of planted-indel families (lengths 1..10, every carrier set for 3..5 samples, 1..3 indels 4k apart) through the CLI; every record judged against the true sequences; recall over the family",
         "Each record's before+REF/ALT+after must be a substring of exactly the samples genotyped for it; every carrier set (both polarities, ties included) and every length is enumerated, duplicates and unexplained records are violations, and recall is measured over the whole family (>= 90% required).",
         "One thread; declared hash seeds; release-profile arithmetic (debug builds panic on a usize underflow for short deletion paths).", "DESIGN.md §5 C18"),
 "C19": ("fault_enumeration", "exhaustive single-fault enumeration (every truncation length, every single-bit flip) of real .skf files through the real loader and CLI",
         "Every one of the len + 8*len damaged images of six files (64/128-bit, one or several samples, one or several snappy frames, stored-uncompressed chunks, files written by delete) is loaded exactly as main does; each must be rejected or decode to the original content. The space is finite and enumerated completely.",
         "One fault per image; subject files are produced once per run by the real save so that all shards damage the same bytes.", "DESIGN.md §5 C19"),
 "C20": ("exploration", "bounded exhaustive enumeration: designed multiplicity histograms (boundary 49/50/51, empty buckets) through the real counter and CLI vs model multiplicities; parameter grid x every table length for the cutoff rule; unit-histogram basis x parameter grid for the likelihood/gradient identity",
         "Counting is decided per distinct k-mer against the model on read sets whose histogram is constructed to sit exactly on the truncation boundary; the cutoff rule is a function of (w0, c, length) enumerated on a grid against an independent closed form; likelihood and gradient are linear in the histogram, so checking every unit histogram on the parameter grid (plus composites) decides the identity on the grid. This is the weakest fit of the family (a numeric identity decided on a grid and a basis).",
         "Needs the verif-hooks feature (private likelihood functions, fitted state). Off-grid parameters are not covered.", "DESIGN.md §5 C20"),
}
IMPLEMENTED = set(CHECKS)
ALL = ["C%02d" % i for i in range(1, 21)]

def main():
    hooks_commits = subprocess.run(["git", "-C", "/repo", "log", "--format=%H", "--grep=^verif hooks"], capture_output=True, text=True).stdout.split()
    checks = []
    for pid in ALL:
        if pid not in CHECKS: continue
        cat, tech, text, note, ref = CHECKS[pid]
        checks.append({
            "property_id": pid,
            "quick_cmd": "./check %s --tier quick" % pid,
            "thorough_cmd": "./check %s --tier thorough" % pid,
            "evidence_file": "/verif/evidence/%s.json" % pid,
            "replay_cmd_template": "./check %s --replay {path}" % pid,
            "engine": "skaverif",
            "level_claimed": {"category": cat, "text": text, "design_ref": ref},
            "level_note": note,
            "technique": tech,
        })
    na = [{"property_id": p, "reason": "check not built yet in this session (planned: see DESIGN.md §5); nothing is claimed for it"} for p in ALL if p not in CHECKS]
    m = {
        "version": 1,
        "setup_cmd": "./check --setup",
        "hooks": {
            "guard": "cargo feature verif-hooks (crate ska)",
            "enable": "the harness depends on ska = { path = \"/repo\", features = [\"verif-hooks\"] }; every check rebuilds it from /repo's working tree (cargo build --release --offline in /verif/harness)",
            "baseline_off_cmd": "cd /repo && cargo test --workspace --no-fail-fast --offline",
            "source_commits": hooks_commits,
            "add_only": True,
        },
        "engines": [{"name": "skaverif", "path": "/verif/harness", "serves_properties": sorted(CHECKS), "kind_free_text": "Rust harness linked against /repo (release profile): bounded exhaustive enumeration against a reference model, explicit-state search (stateright) with the real operations as transition function, fault enumeration, interleaving model with conformance replay"}],
        "checks": checks,
        "not_applicable": na,
        "notes": "All checks: exit 0 = held on everything explored, exit 1 + VIOLATION line, exit 2 + MACHINERY line = harness problem (never a verdict). Known findings: /verif/known_findings.txt.",
    }
    json.dump(m, open(os.path.join(ROOT, "MANIFEST.json"), "w"), indent=1)
    print("wrote MANIFEST.json with", len(checks), "checks")

if __name__ == "__main__":
    main()
