#!/usr/bin/env python3
"""Throw-away prototype of the reference model (design phase).

Used once, against a scratch build of /repo with notes/candidate_fixes.diff applied, to
check that the oracles described in DESIGN.md read the properties the way the (repaired)
code behaves. The real reference model is written in Rust in the harness; this file is
kept only as an executable specification to port from. Random inputs here are for
*validating the model*, not for deciding properties.
"""
import math, random, subprocess, sys, os, itertools
from collections import Counter

SKA = os.environ.get('SKA', '/tmp/ska_wt_tgt/release/ska')
comp = {'A': 'T', 'C': 'G', 'G': 'C', 'T': 'A'}
order = {'A': 0, 'C': 1, 'T': 2, 'G': 3}
IU = {frozenset('A'): 'A', frozenset('C'): 'C', frozenset('G'): 'G', frozenset('T'): 'T',
      frozenset('AG'): 'R', frozenset('CT'): 'Y', frozenset('CG'): 'S', frozenset('AT'): 'W',
      frozenset('GT'): 'K', frozenset('AC'): 'M', frozenset('CGT'): 'B', frozenset('AGT'): 'D',
      frozenset('ACT'): 'H', frozenset('ACG'): 'V', frozenset('ACGT'): 'N'}
UI = {v: k for k, v in IU.items()}


def rc(s): return ''.join(comp[c] for c in reversed(s.upper()))
def key(s): return [order[c] for c in s]
def is_ambig(b): return b not in 'ACGTU-'


def windows(seq, k):
    h = (k - 1) // 2
    for i in range(len(seq) - k + 1):
        w = seq[i:i + k].upper()
        if 'N' in w: continue
        yield i + h, w


def canon(w, k, rcmode):
    h = (k - 1) // 2
    arms = w[:h] + w[h + 1:]; m = w[h]
    if not rcmode: return arms, {m}, False
    r = rc(w); rarms = r[:h] + r[h + 1:]; rm = r[h]
    if key(arms) > key(rarms): return rarms, {rm}, True
    if arms == rarms: return arms, {m, rm}, False
    return arms, {m}, False


def build(records, k, rcmode):
    d = {}
    for seq in records:
        for _, w in windows(seq, k):
            a, ms, _ = canon(w, k, rcmode)
            d.setdefault(a, set()).update(ms)
    return {a: IU[frozenset(ms)] for a, ms in d.items()}


class Table:
    def __init__(self, k, rcmode, names, rows):
        self.k, self.rc, self.names, self.rows = k, rcmode, list(names), dict(rows)

    @staticmethod
    def from_samples(k, rcmode, names, samples):
        dicts = [build(r, k, rcmode) for r in samples]
        rows = {}
        for i, d in enumerate(dicts):
            for a, b in d.items():
                rows.setdefault(a, ['-'] * len(names))[i] = b
        return Table(k, rcmode, names, rows)

    def merge(self, other):
        rows = {}
        n1, n2 = len(self.names), len(other.names)
        for a in set(self.rows) | set(other.rows):
            rows[a] = self.rows.get(a, ['-'] * n1) + other.rows.get(a, ['-'] * n2)
        return Table(self.k, self.rc, self.names + other.names, rows)

    def delete(self, names):
        keep = [i for i, n in enumerate(self.names) if n not in names]
        rows = {}
        for a, r in self.rows.items():
            nr = [r[i] for i in keep]
            if any(b != '-' for b in nr): rows[a] = nr
        return Table(self.k, self.rc, [self.names[i] for i in keep], rows)

    def weed(self, seqs, reverse):
        wk = set(build(seqs, self.k, self.rc))
        return Table(self.k, self.rc, self.names,
                     {a: r for a, r in self.rows.items() if (a in wk) == reverse})

    def filter(self, thr, filt, ambig_missing=False, mask=False, nogap=False):
        rows = {}
        for a, r in self.rows.items():
            cnt = sum(1 for b in r if b != '-' and not (ambig_missing and is_ambig(b)))
            if cnt < max(1, thr): continue
            if filt == 'no-const':
                keep = len({b for b in r if not (nogap and b == '-')}) > 1
            elif filt == 'no-ambig':
                keep = not any(is_ambig(b) for b in r)
            elif filt == 'no-ambig-or-const':
                keep = len({b for b in r if b in 'ACGT' or (b == '-' and not nogap)}) > 1
            else:
                keep = True
            if keep:
                rows[a] = [('N' if (mask and is_ambig(b)) else b) for b in r]
        return Table(self.k, self.rc, self.names, rows)

    def columns(self): return Counter(''.join(r) for r in self.rows.values())

    def distance(self, thr):
        rows = [r for r in self.rows.values() if sum(b != '-' for b in r) >= thr]
        out = []
        n = len(self.names)
        for i in range(n):
            for j in range(i + 1, n):
                snps = sum(1 for r in rows if r[i] != '-' and r[j] != '-' and r[i] != r[j])
                one = sum(1 for r in rows if (r[i] == '-') != (r[j] == '-'))
                any_ = sum(1 for r in rows if r[i] != '-' or r[j] != '-')
                mm = 0.0 if any_ == 0 else one / any_
                out.append('%s\t%s\t%.2f\t%.5f' % (self.names[i], self.names[j], snps, mm))
        return out


def rciupac(c): return IU[frozenset(comp[x] for x in UI[c])]


def model_map(ref, dicts, k, rcmode, ambig_mask, repeat_mask):
    h = (k - 1) // 2
    refk, count = [], {}
    for ci, seq in enumerate(ref):
        for p, w in windows(seq, k):
            a, ms, flag = canon(w, k, rcmode)
            refk.append((ci, p, a, flag)); count[a] = count.get(a, 0) + 1
    outs = []
    for d in dicts:
        out = [['-'] * len(s) for s in ref]
        matched = [(ci, p, a, f) for (ci, p, a, f) in refk if d.get(a, '-') != '-']
        for ci, p, a, f in matched:
            for q in range(p - h, p + h + 1): out[ci][q] = ref[ci][q].upper()
        for ci, p, a, f in matched:
            b = d[a]
            if f: b = rciupac(b)
            if ambig_mask and is_ambig(b): b = 'N'
            out[ci][p] = b
        if repeat_mask:
            for ci, p, a, f in refk:
                if count[a] > 1:
                    for q in range(p - h, p + h + 1):
                        if out[ci][q] != '-': out[ci][q] = 'N'
        outs.append([''.join(o) for o in out])
    anymatch = any(d.get(a, '-') != '-' for d in dicts for (_, _, a, _) in refk)
    return outs, anymatch


def model_vcf(ref, alns):
    """alns: per sample list of per-contig strings -> list of (contig, pos1, ref, decoded bases)."""
    recs = []
    for ci, seq in enumerate(ref):
        for p in range(len(seq)):
            rb = seq[p].upper()
            col = [a[ci][p] for a in alns]
            if any(c != rb for c in col):
                refa = rb if rb in 'ACGT' else 'N'
                dec = ['.' if c == '-' else (c if c in 'ACGT' else 'N') for c in col]
                recs.append((ci, p + 1, refa, dec))
    return recs


# --------------------------------------------------------------------------------------
def sh(args, **kw): return subprocess.run([SKA] + args, capture_output=True, text=True, **kw)


def parse_nk(text):
    rows = {}
    names = None
    for l in text.splitlines():
        if l.startswith('sample_names='): names = eval(l.split('=', 1)[1])
        parts = l.split('\t')
        if len(parts) == 3: rows[parts[0] + parts[1]] = parts[2].split(',')
    return names, rows


def rand_seq(rnd, L, pn=0.0):
    return ''.join('N' if rnd.random() < pn else rnd.choice('ACGT') for _ in range(L))


def mutate(rnd, s, k):
    t = list(s)
    for _ in range(rnd.choice([0, 1, 2, 3])):
        t[rnd.randrange(len(t))] = rnd.choice('ACGT')
    t = ''.join(t)
    if rnd.random() < 0.3 and len(t) > 6:
        i = rnd.randrange(len(t) - 3); t = t[:i] + t[i + rnd.choice([1, 2, 3]):]
    if rnd.random() < 0.3 and 'N' not in t.upper(): t = rc(t)
    if rnd.random() < 0.3: t = ''.join(c.lower() if rnd.random() < 0.5 else c for c in t)
    return t


def case_tables(seed):
    """build / nk / merge / delete / weed / align / distance against the model."""
    rnd = random.Random(seed)
    k = rnd.choice([5, 7, 9, 31, 33, 35])
    rcmode = rnd.random() < 0.7
    base = [rand_seq(rnd, rnd.choice([k, k + 1, 2 * k, 4 * k]), 0.02) for _ in range(rnd.choice([1, 2]))]
    if rnd.random() < 0.4:  # repeat with another middle base -> ambiguity
        s = base[0]
        if len(s) >= k and 'N' not in s[:k]:
            h = (k - 1) // 2; w = list(s[:k]); w[h] = rnd.choice('ACGT'); base.append(''.join(w))
    n = rnd.choice([2, 3, 4])
    samples = []
    for i in range(n):
        recs = [mutate(rnd, s, k) for s in base if rnd.random() < 0.9] or [base[0]]
        samples.append(recs)
    names = ['s%d' % i for i in range(n)]
    for i, recs in enumerate(samples):
        open('s%d.fa' % i, 'w').write(''.join('>r%d\n%s\n' % (j, s) for j, s in enumerate(recs)))
    if any(len(build(r, k, rcmode)) == 0 for r in samples): return 'skip'
    ss = [] if rcmode else ['--single-strand']
    res = []
    # joint build
    r = sh(['build', '-k', str(k), '-o', 'all'] + ['s%d.fa' % i for i in range(n)] + ss)
    if r.returncode: return ('FAIL-build', seed, r.stderr[-200:])
    T = Table.from_samples(k, rcmode, names, samples)
    nm, rows = parse_nk(sh(['nk', '--full-info', 'all.skf']).stdout)
    if nm != names or rows != T.rows: return ('DIFF-build', seed, k, rcmode, samples)
    # merge of two parts
    cut = rnd.randrange(1, n)
    sh(['build', '-k', str(k), '-o', 'p1'] + ['s%d.fa' % i for i in range(cut)] + ss)
    sh(['build', '-k', str(k), '-o', 'p2'] + ['s%d.fa' % i for i in range(cut, n)] + ss)
    r = sh(['merge', 'p1.skf', 'p2.skf', '-o', 'm'])
    if r.returncode: return ('FAIL-merge', seed, r.stderr[-300:])
    nm, rows = parse_nk(sh(['nk', '--full-info', 'm.skf']).stdout)
    if nm != names or rows != T.rows: return ('DIFF-merge', seed, k, rcmode, samples)
    # delete
    dn = rnd.sample(names, rnd.randrange(1, n))
    if rnd.random() < 0.5:
        open('names.txt', 'w').write('\n'.join(dn) + '\n')
        r = sh(['delete', '-s', 'm.skf', '-o', 'd', '-f', 'names.txt'])
    else:
        r = sh(['delete', '-s', 'm.skf', '-o', 'd'] + dn)
    if r.returncode: return ('FAIL-delete', seed, r.stderr[-300:])
    D = T.delete(dn)
    nm, rows = parse_nk(sh(['nk', '--full-info', 'd.skf']).stdout)
    if nm != D.names or rows != D.rows: return ('DIFF-delete', seed, k, dn)
    # weed
    wseqs = [rnd.choice(rnd.choice(samples))[rnd.randrange(3):][:k + rnd.randrange(6)] for _ in range(2)]
    if rnd.random() < 0.5: wseqs = [rc(s.upper()) if 'N' not in s.upper() else s for s in wseqs]
    open('w.fa', 'w').write(''.join('>w%d\n%s\n' % (j, s) for j, s in enumerate(wseqs)))
    if len(build(wseqs, k, rcmode)):
        for rev in (False, True):
            r = sh(['weed', 'all.skf', 'w.fa', '-o', 'wd.skf', '--min-freq', '0'] + (['--reverse'] if rev else []))
            if r.returncode: return ('FAIL-weed', seed, r.stderr[-300:])
            W = T.weed(wseqs, rev)
            nm, rows = parse_nk(sh(['nk', '--full-info', 'wd.skf']).stdout)
            if nm != W.names or rows != W.rows: return ('DIFF-weed', seed, k, rev, wseqs)
    # align with filters
    for _ in range(6):
        t = rnd.randrange(0, n + 1)
        f = 0.0 if t == 0 else (t - 0.5) / n
        filt = rnd.choice(['no-filter', 'no-const', 'no-ambig', 'no-ambig-or-const'])
        am, mk, ng = (rnd.random() < 0.5 for _ in range(3))
        args = ['align', 'all.skf', '--min-freq', repr(f), '--filter', filt]
        if am: args.append('--filter-ambig-as-missing')
        if mk: args.append('--ambig-mask')
        if ng: args.append('--no-gap-only-sites')
        r = sh(args)
        if r.returncode: return ('FAIL-align', seed, r.stderr[-300:])
        seqs = [l for l in r.stdout.splitlines() if not l.startswith('>')]
        cols = Counter(''.join(s[i] for s in seqs) for i in range(len(seqs[0]))) if seqs and seqs[0] else Counter()
        exp = T.filter(t, filt, am, mk, ng).columns()
        if cols != exp: return ('DIFF-align', seed, k, t, filt, am, mk, ng, dict(cols - exp), dict(exp - cols))
    # distance (unambiguous tables only)
    if not any(is_ambig(b) for r_ in T.rows.values() for b in r_):
        for t in range(0, n + 1):
            f = 0.0 if t == 0 else (t - 0.5) / n
            for aa in ([], ['--allow-ambiguous']):
                r = sh(['distance', 'all.skf', '--min-freq', repr(f)] + aa)
                if r.returncode: return ('FAIL-dist', seed, r.stderr[-300:])
                got = r.stdout.splitlines()[1:]
                exp = T.distance(t)
                if got != exp: return ('DIFF-dist', seed, k, t, aa, got, exp)
        res.append('dist')
    return 'ok' + ('+dist' if res else '')


def case_map(seed):
    rnd = random.Random(seed)
    k = rnd.choice([5, 7, 9]); rcmode = rnd.random() < 0.7
    ref = []
    for _ in range(rnd.choice([1, 1, 2, 3])):
        L = rnd.choice([k - 2, k, k + 1, k + 3, 2 * k, 3 * k + 1])
        ref.append(rand_seq(rnd, L, 0.03))
    if rnd.random() < 0.4 and len(ref) > 1 and len(ref[0]) >= k:
        seg = ref[0][:k + 1]
        if rnd.random() < 0.5 and 'N' not in seg.upper(): seg = rc(seg)
        ref[-1] = ref[-1][:2] + seg + ref[-1][2:]
    if rnd.random() < 0.4: ref = [''.join(c.lower() if rnd.random() < 0.5 else c for c in s) for s in ref]
    samples = []
    for _ in range(rnd.choice([1, 2, 3])):
        recs = [mutate(rnd, s, k) for s in ref if rnd.random() < 0.8]
        if rnd.random() < 0.3: recs.append(rand_seq(rnd, 2 * k))
        samples.append(recs or [ref[0]])
    am = rnd.random() < 0.5; rm = rnd.random() < 0.5
    open('ref.fa', 'w').write(''.join('>c%d some text\n%s\n' % (i, s) for i, s in enumerate(ref)))
    files = []
    for i, recs in enumerate(samples):
        open('s%d.fa' % i, 'w').write(''.join('>r%d\n%s\n' % (j, s) for j, s in enumerate(recs))); files.append('s%d.fa' % i)
    dicts = [build(r, k, rcmode) for r in samples]
    if any(len(d) == 0 for d in dicts): return 'skip'
    r = sh(['build', '-k', str(k), '-o', 'x'] + files + ([] if rcmode else ['--single-strand']))
    if r.returncode: return ('FAIL-build', seed)
    flags = (['--ambig-mask'] if am else []) + (['--repeat-mask'] if rm else [])
    r = sh(['map', 'ref.fa', 'x.skf'] + flags)
    exp, anymatch = model_map(ref, dicts, k, rcmode, am, rm)
    if r.returncode: return 'ok-refuse' if not anymatch else ('FAIL-map', seed, r.stderr[-300:])
    got = [l for l in r.stdout.splitlines() if not l.startswith('>')]
    if got != [''.join(e) for e in exp]: return ('DIFF-map', seed, k, rcmode, am, rm, ref, samples, got, exp)
    v = sh(['map', 'ref.fa', 'x.skf', '-f', 'vcf'] + flags)
    if v.returncode: return ('FAIL-vcf', seed, v.stderr[-300:])
    recs = []
    for l in v.stdout.splitlines():
        if l.startswith('#'): continue
        f = l.split('\t'); alleles = [f[3]] + ([] if f[4] == '.' else f[4].split(','))
        recs.append((int(f[0][1:]), int(f[1]), f[3], ['.' if g == '.' else alleles[int(g)] for g in f[9:]]))
    if recs != model_vcf(ref, exp): return ('DIFF-vcf', seed, recs[:5], model_vcf(ref, exp)[:5])
    return 'ok'


def read_filter_model(files, k, rcmode, c, Q, rule):
    """files: two lists of (seq, quals[int]).  Returns dict arms -> IUPAC of middle bases whose
    full k-mer (with its reverse complement when strands are merged) was seen >= c times among
    windows passing the quality rule."""
    h = (k - 1) // 2
    cnt = Counter(); info = {}
    for reads in files:
        for seq, q in reads:
            for i in range(len(seq) - k + 1):
                w = seq[i:i + k].upper()
                if 'N' in w: continue
                qs = q[i:i + k]
                if rule == 'middle' and qs[h] < Q: continue
                if rule == 'strict' and min(qs) < Q: continue
                full = min(w, rc(w)) if rcmode else w
                cnt[full] += 1
                info[full] = w
    d = {}
    for full, n in cnt.items():
        if n >= c:
            a, ms, _ = canon(info[full], k, rcmode)
            d.setdefault(a, set()).update(ms)
    return {a: IU[frozenset(ms)] for a, ms in d.items()}


def case_reads(seed):
    rnd = random.Random(seed)
    k = rnd.choice([5, 7, 9, 31, 33]); rcmode = rnd.random() < 0.7
    g = rand_seq(rnd, k + rnd.choice([0, 1, 2, 6]))
    h = (k - 1) // 2
    g2 = list(g); g2[h + rnd.randrange(len(g) - k + 1)] = rnd.choice('ACGT'); g2 = ''.join(g2)
    c = rnd.choice([1, 2, 3, 4, 5, 6]); Q = rnd.choice([0, 1, 20, 40]); rule = rnd.choice(['none', 'middle', 'strict'])
    files = []
    for fidx in range(2):
        reads = []
        for _ in range(rnd.randrange(1, 2 * c + 2)):
            src = rnd.choice([g, g, g2])
            a = rnd.randrange(0, len(src) - k + 1); b = rnd.randrange(a + k, len(src) + 1)
            s = src[a:b]
            if rnd.random() < 0.1: i = rnd.randrange(len(s)); s = s[:i] + 'N' + s[i + 1:]
            q = [Q + 5] * len(s)
            for _ in range(rnd.choice([0, 0, 1, 2])):
                q[rnd.randrange(len(s))] = max(0, Q + rnd.choice([-1, 0, 0, 1]))
            if rnd.random() < 0.5: s = rc(s) if 'N' not in s else s[::-1].translate(str.maketrans('ACGT', 'TGCA')); q = q[::-1]
            reads.append((s, q))
        files.append(reads)
    for fidx, reads in enumerate(files):
        with open('r%d.fastq' % fidx, 'w') as f:
            for i, (s, q) in enumerate(reads): f.write('@r%d\n%s\n+\n%s\n' % (i, s, ''.join(chr(33 + x) for x in q)))
    open('fl.txt', 'w').write('smp\tr0.fastq\tr1.fastq\n')
    exp = read_filter_model(files, k, rcmode, c, Q, rule)
    r = sh(['build', '-k', str(k), '-o', 'rd', '-f', 'fl.txt', '--min-count', str(c), '--min-qual', str(Q), '--qual-filter', {'none': 'no-filter'}.get(rule, rule)] + ([] if rcmode else ['--single-strand']))
    if r.returncode: return 'ok-empty' if not exp else ('FAIL-reads', seed, r.stderr[-300:])
    nm, rows = parse_nk(sh(['nk', '--full-info', 'rd.skf']).stdout)
    got = {a: v[0] for a, v in rows.items()}
    if got != exp: return ('DIFF-reads', seed, k, rcmode, c, Q, rule, files, got, exp)
    return 'ok'


def case_snps(seed):
    rnd = random.Random(seed)
    k = rnd.choice([5, 7, 9, 15, 31, 33]); h = (k - 1) // 2
    L = 6 * k
    while True:
        g = rand_seq(rnd, L)
        T = Table.from_samples(k, True, ['x'], [[g]])
        if len(T.rows) == L - k + 1 and all(b in 'ACGT' for r in T.rows.values() for b in r): break
    sites = []; p = h + rnd.randrange(3)
    while p <= L - 1 - h and len(sites) < 3:
        sites.append(p); p += h + 1 + rnd.randrange(k)
    n = rnd.choice([2, 3, 4, 10])
    cols = []
    for s in sites:
        while True:
            col = [rnd.choice('ACGT') for _ in range(n)]
            if len(set(col)) > 1: break
        cols.append(col)
    samples = []
    for i in range(n):
        t = list(g)
        for s, col in zip(sites, cols): t[s] = col[i]
        t = ''.join(t)
        samples.append([rc(t) if rnd.random() < 0.5 else t])
    # premise check on derived samples: every split k-mer arm set maps to one locus
    Tm = Table.from_samples(k, True, ['s%d' % i for i in range(n)], samples)
    if len(Tm.rows) != sum(1 for a in Tm.rows) or any(is_ambig(b) for r in Tm.rows.values() for b in r): return 'skip-premise'
    files = []
    for i, recs in enumerate(samples):
        open('s%d.fa' % i, 'w').write('>r\n%s\n' % recs[0]); files.append('s%d.fa' % i)
    sh(['build', '-k', str(k), '-o', 'sn'] + files)
    r = sh(['align', 'sn.skf', '--min-freq', '1'])
    if r.returncode: return ('FAIL-align', seed)
    lines = r.stdout.splitlines()
    nm = [l[1:] for l in lines if l.startswith('>')]; seqs = [l for l in lines if not l.startswith('>')]
    got = Counter(min(c_, ''.join(comp[x] for x in c_)) for c_ in (''.join(s[i] for s in seqs) for i in range(len(seqs[0]))))
    exp = Counter(min(''.join(c_), ''.join(comp[x] for x in c_)) for c_ in cols)
    if nm != ['s%d' % i for i in range(n)] or got != exp: return ('DIFF-snps', seed, k, sites, cols, dict(got), dict(exp))
    return 'ok'


if __name__ == '__main__':
    what, n = sys.argv[1], int(sys.argv[2])
    os.makedirs('/dev/shm/proto', exist_ok=True); os.chdir('/dev/shm/proto')
    c = Counter()
    for seed in range(n):
        r = {'tables': case_tables, 'map': case_map, 'reads': case_reads, 'snps': case_snps}[what](seed)
        tag = r[0] if isinstance(r, tuple) else r
        c[tag] += 1
        if isinstance(r, tuple) and c[tag] <= 3: print(r)
    print(c)
