/* LD_PRELOAD shim: answers getrandom/getentropy/syscall(SYS_getrandom) from VERIF_HASH_SEED so that
   hash-map iteration orders (ahash, std RandomState) are an owned, replayable environment answer. */
#define _GNU_SOURCE
#include <stddef.h>
#include <stdint.h>
#include <stdlib.h>
#include <string.h>
#include <stdarg.h>
#include <dlfcn.h>
#include <sys/syscall.h>
#include <sys/types.h>
#include <unistd.h>
static uint64_t st=0; static int init=0;
static void fill(void*buf,size_t n){
  if(!init){const char*s=getenv("VERIF_HASH_SEED"); st=s?strtoull(s,0,10):0; st=st*0x9E3779B97F4A7C15ull+1; init=1;}
  unsigned char*p=buf; for(size_t i=0;i<n;i++){ st^=st<<13; st^=st>>7; st^=st<<17; p[i]=(unsigned char)(st>>24);} }
ssize_t getrandom(void*buf,size_t n,unsigned int flags){ fill(buf,n); return (ssize_t)n; }
int getentropy(void*buf,size_t n){ fill(buf,n); return 0; }
long syscall(long num, ...){
  va_list ap; va_start(ap,num); long a=va_arg(ap,long),b=va_arg(ap,long),c=va_arg(ap,long),d=va_arg(ap,long),e=va_arg(ap,long),f=va_arg(ap,long); va_end(ap);
  if(num==SYS_getrandom){ fill((void*)a,(size_t)b); return b; }
  static long (*real)(long,...)=0; if(!real) real=dlsym(RTLD_NEXT,"syscall");
  return real(num,a,b,c,d,e,f);
}
